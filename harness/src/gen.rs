// Reference grammar of the supported OpenQASM 3 subset: a model program is a tree (MStmt/MExpr)
// with a printer (layout options) and the structures the properties predict from it:
// expected syntactic shape (C05), expected graph skeleton (C06), reference lexical resolution
// (C07).  All random choices come from one Rng.
use crate::util::Rng;

#[derive(Clone, Debug, PartialEq)]
pub enum MExpr {
    Int(u64),
    Float(String),
    Bool(bool),
    Bits(String),
    Timing(String, &'static str),
    Imag(String),
    Ident(String),
    HwQubit(u32),
    Bin(&'static str, Box<MExpr>, Box<MExpr>),
    Neg(Box<MExpr>),
    /// `!e` / `~e` (only in programs of the wider grammar: the analyser does not support them)
    Un(&'static str, Box<MExpr>),
    Paren(Box<MExpr>),
    Call(String, Vec<MExpr>),
    Index(Box<MExpr>, Vec<MExpr>),
    Cast(String, Box<MExpr>),
    Measure(Box<MQubit>),
}

#[derive(Clone, Debug, PartialEq)]
pub enum MQubit {
    Name(String),
    Indexed(String, u64),
    Hw(u32),
}

#[derive(Clone, Debug, PartialEq)]
pub enum MMod {
    Inv,
    Pow(MExpr),
    Ctrl(Option<MExpr>),
    NegCtrl(Option<MExpr>),
}

#[derive(Clone, Debug, PartialEq)]
pub enum MBody {
    Block(Vec<MStmt>),
    Single(Box<MStmt>),
}

#[derive(Clone, Debug, PartialEq)]
pub enum MIter {
    Range(MExpr, Option<MExpr>, MExpr),
    Set(Vec<MExpr>),
    Expr(MExpr),
}

#[derive(Clone, Debug, PartialEq)]
pub enum MStmt {
    Decl { is_const: bool, ty: String, name: String, init: Option<MExpr> },
    Qubit { name: String, width: Option<u64> },
    IODecl { input: bool, ty: String, name: String },
    Assign { name: String, rhs: MExpr },
    AssignIdx { name: String, idx: MExpr, rhs: MExpr },
    GateCall { mods: Vec<MMod>, name: String, params: Vec<MExpr>, qubits: Vec<MQubit> },
    GPhase { mods: Vec<MMod>, arg: MExpr },
    Reset(MQubit),
    Barrier(Vec<MQubit>),
    Delay(MExpr, Vec<MQubit>),
    If { cond: MExpr, then: MBody, els: Option<MBody> },
    While { cond: MExpr, body: MBody },
    For { ty: String, var: String, iter: MIter, body: MBody },
    Switch { control: MExpr, cases: Vec<(Vec<MExpr>, Vec<MStmt>)>, default: Option<Vec<MStmt>> },
    Break,
    Continue,
    End,
    GateDef { name: String, params: Vec<String>, qubits: Vec<String>, body: Vec<MStmt> },
    Def { name: String, params: Vec<(String, String)>, ret: Option<String>, body: Vec<MStmt> },
    Return(Option<MExpr>),
    Alias { name: String, rhs: MExpr },
    Pragma(String),
    Annotation(String),
    IncludeStd,
    ExprStmt(MExpr),
    /// anonymous block `{ ... }` (only in programs of the wider grammar)
    Scope(Vec<MStmt>),
    Empty,
}

// ---------------------------------------------------------------- operator table of OpenQASM 3
/// (token, precedence level per the OpenQASM 3 specification -- higher binds tighter --, right assoc)
pub const SPEC_BINOPS: &[(&str, u8, bool)] = &[
    ("||", 1, false),
    ("&&", 2, false),
    ("|", 3, false),
    ("^", 4, false),
    ("&", 5, false),
    ("==", 6, false),
    ("!=", 6, false),
    ("<", 7, false),
    ("<=", 7, false),
    (">", 7, false),
    (">=", 7, false),
    ("<<", 8, false),
    (">>", 8, false),
    ("+", 9, false),
    ("-", 9, false),
    ("*", 10, false),
    ("/", 10, false),
    ("%", 10, false),
    ("**", 12, true),
];
pub const SPEC_UNARY_LEVEL: u8 = 11;

pub fn spec_level(op: &str) -> (u8, bool) {
    SPEC_BINOPS.iter().find(|(o, _, _)| *o == op).map(|(_, l, r)| (*l, *r)).unwrap_or((0, false))
}

// ---------------------------------------------------------------- printing
#[derive(Clone, Copy)]
pub struct Layout {
    /// redundant parentheses around every operand
    pub redundant_parens: bool,
    /// 0 = single blanks, 1 = rich trivia (comments, line breaks), 2 = minimal
    pub trivia: u8,
}

pub struct Printer<'a> {
    pub lay: Layout,
    pub rng: &'a mut Rng,
    pub out: String,
}

impl<'a> Printer<'a> {
    pub fn sp(&mut self) {
        match self.lay.trivia {
            0 => self.out.push(' '),
            2 => self.out.push(' '),
            _ => {
                // (comments also with non-ASCII text: their extent is counted in characters, their length in bytes)
                let c = ["  ", " ", "\n", "\t", " /* c */ ", " // c\n", "\n\n", " // θ → φ by π (µs)\n", " /* é→ü */ ", " // ∀ε\n"][self.rng.below(10) as usize];
                self.out.push_str(c);
            }
        }
    }
    /// optional space (may be empty in minimal layout)
    pub fn osp(&mut self) {
        match self.lay.trivia {
            2 => {}
            0 => self.out.push(' '),
            _ => {
                if self.rng.below(2) == 0 {
                    self.sp()
                }
            }
        }
    }
    pub fn tok(&mut self, t: &str) {
        self.out.push_str(t);
    }

    pub fn expr(&mut self, e: &MExpr, parent_level: u8, right_side: bool) {
        // minimal parentheses according to the OpenQASM table
        match e {
            MExpr::Int(n) => self.tok(&n.to_string()),
            MExpr::Float(s) => self.tok(s),
            MExpr::Bool(b) => self.tok(if *b { "true" } else { "false" }),
            MExpr::Bits(s) => {
                self.tok("\"");
                self.tok(s);
                self.tok("\"")
            }
            MExpr::Timing(n, u) => {
                self.tok(n);
                self.osp();
                self.tok(u)
            }
            MExpr::Imag(n) => {
                self.tok(n);
                self.osp();
                self.tok("im")
            }
            MExpr::Ident(n) => self.tok(n),
            MExpr::HwQubit(n) => self.tok(&format!("${n}")),
            MExpr::Bin(op, l, r) => {
                let (lvl, rassoc) = spec_level(op);
                let need = lvl < parent_level || (lvl == parent_level && (right_side != rassoc));
                let paren = need || self.lay.redundant_parens;
                if paren {
                    self.tok("(");
                }
                self.expr(l, lvl, false);
                self.osp();
                self.tok(op);
                self.osp();
                self.expr(r, lvl, true);
                if paren {
                    self.tok(")");
                }
            }
            MExpr::Neg(x) => {
                let paren = SPEC_UNARY_LEVEL < parent_level || self.lay.redundant_parens;
                if paren {
                    self.tok("(");
                }
                self.tok("-");
                self.expr(x, SPEC_UNARY_LEVEL, true);
                if paren {
                    self.tok(")");
                }
            }
            MExpr::Un(op, x) => {
                let paren = SPEC_UNARY_LEVEL < parent_level || self.lay.redundant_parens;
                if paren {
                    self.tok("(");
                }
                self.tok(op);
                self.expr(x, SPEC_UNARY_LEVEL, true);
                if paren {
                    self.tok(")");
                }
            }
            MExpr::Paren(x) => {
                self.tok("(");
                self.osp();
                self.expr(x, 0, false);
                self.osp();
                self.tok(")");
            }
            MExpr::Call(f, args) => {
                self.tok(f);
                self.tok("(");
                for (i, a) in args.iter().enumerate() {
                    if i > 0 {
                        self.tok(",");
                        self.osp();
                    }
                    self.expr(a, 0, false);
                }
                self.tok(")");
            }
            MExpr::Index(b, idx) => {
                self.expr(b, 13, false);
                self.tok("[");
                for (i, a) in idx.iter().enumerate() {
                    if i > 0 {
                        self.tok(",");
                        self.osp();
                    }
                    self.expr(a, 0, false);
                }
                self.tok("]");
            }
            MExpr::Cast(t, x) => {
                self.tok(t);
                self.tok("(");
                self.expr(x, 0, false);
                self.tok(")");
            }
            MExpr::Measure(q) => {
                self.tok("measure");
                self.sp();
                self.qubit(q);
            }
        }
    }

    pub fn qubit(&mut self, q: &MQubit) {
        match q {
            MQubit::Name(n) => self.tok(n),
            MQubit::Indexed(n, i) => self.tok(&format!("{n}[{i}]")),
            MQubit::Hw(n) => self.tok(&format!("${n}")),
        }
    }
    fn qubits(&mut self, qs: &[MQubit]) {
        for (i, q) in qs.iter().enumerate() {
            if i > 0 {
                self.tok(",");
                self.osp();
            }
            self.qubit(q);
        }
    }
    fn mods(&mut self, ms: &[MMod]) {
        for m in ms {
            match m {
                MMod::Inv => self.tok("inv"),
                MMod::Pow(e) => {
                    self.tok("pow(");
                    self.expr(e, 0, false);
                    self.tok(")")
                }
                MMod::Ctrl(e) => {
                    self.tok("ctrl");
                    if let Some(e) = e {
                        self.tok("(");
                        self.expr(e, 0, false);
                        self.tok(")")
                    }
                }
                MMod::NegCtrl(e) => {
                    self.tok("negctrl");
                    if let Some(e) = e {
                        self.tok("(");
                        self.expr(e, 0, false);
                        self.tok(")")
                    }
                }
            }
            self.osp();
            self.tok("@");
            // `@name` is one annotation token: a blank must follow the `@` of a modifier
            self.sp();
        }
    }
    fn block(&mut self, ss: &[MStmt]) {
        self.tok("{");
        self.osp();
        for s in ss {
            self.stmt(s);
            self.osp();
        }
        self.tok("}");
    }
    fn body(&mut self, b: &MBody) {
        match b {
            MBody::Block(ss) => self.block(ss),
            MBody::Single(s) => self.stmt(s),
        }
    }

    pub fn stmt(&mut self, s: &MStmt) {
        match s {
            MStmt::Decl { is_const, ty, name, init } => {
                if *is_const {
                    self.tok("const");
                    self.sp();
                }
                self.tok(ty);
                self.sp();
                self.tok(name);
                if let Some(e) = init {
                    self.osp();
                    self.tok("=");
                    self.osp();
                    self.expr(e, 0, false);
                }
                self.tok(";");
            }
            MStmt::Qubit { name, width } => {
                self.tok("qubit");
                if let Some(w) = width {
                    self.tok(&format!("[{w}]"));
                }
                self.sp();
                self.tok(name);
                self.tok(";");
            }
            MStmt::IODecl { input, ty, name } => {
                self.tok(if *input { "input" } else { "output" });
                self.sp();
                self.tok(ty);
                self.sp();
                self.tok(name);
                self.tok(";");
            }
            MStmt::Assign { name, rhs } => {
                self.tok(name);
                self.osp();
                self.tok("=");
                self.osp();
                self.expr(rhs, 0, false);
                self.tok(";");
            }
            MStmt::AssignIdx { name, idx, rhs } => {
                self.tok(name);
                self.tok("[");
                self.expr(idx, 0, false);
                self.tok("]");
                self.osp();
                self.tok("=");
                self.osp();
                self.expr(rhs, 0, false);
                self.tok(";");
            }
            MStmt::GateCall { mods, name, params, qubits } => {
                self.mods(mods);
                self.tok(name);
                if !params.is_empty() {
                    self.tok("(");
                    for (i, a) in params.iter().enumerate() {
                        if i > 0 {
                            self.tok(",");
                            self.osp();
                        }
                        self.expr(a, 0, false);
                    }
                    self.tok(")");
                }
                self.sp();
                self.qubits(qubits);
                self.tok(";");
            }
            MStmt::GPhase { mods, arg } => {
                self.mods(mods);
                self.tok("gphase(");
                self.expr(arg, 0, false);
                self.tok(")");
                self.tok(";");
            }
            MStmt::Reset(q) => {
                self.tok("reset");
                self.sp();
                self.qubit(q);
                self.tok(";");
            }
            MStmt::Barrier(qs) => {
                self.tok("barrier");
                self.sp();
                self.qubits(qs);
                self.tok(";");
            }
            MStmt::Delay(d, qs) => {
                self.tok("delay[");
                self.expr(d, 0, false);
                self.tok("]");
                self.sp();
                self.qubits(qs);
                self.tok(";");
            }
            MStmt::If { cond, then, els } => {
                self.tok("if");
                self.osp();
                self.tok("(");
                self.expr(cond, 0, false);
                self.tok(")");
                self.sp();
                self.body(then);
                if let Some(e) = els {
                    self.sp();
                    self.tok("else");
                    self.sp();
                    self.body(e);
                }
            }
            MStmt::While { cond, body } => {
                self.tok("while");
                self.osp();
                self.tok("(");
                self.expr(cond, 0, false);
                self.tok(")");
                self.sp();
                self.body(body);
            }
            MStmt::For { ty, var, iter, body } => {
                self.tok("for");
                self.sp();
                self.tok(ty);
                self.sp();
                self.tok(var);
                self.sp();
                self.tok("in");
                self.sp();
                match iter {
                    MIter::Range(a, st, b) => {
                        self.tok("[");
                        self.expr(a, 0, false);
                        self.tok(":");
                        if let Some(st) = st {
                            self.expr(st, 0, false);
                            self.tok(":");
                        }
                        self.expr(b, 0, false);
                        self.tok("]");
                    }
                    MIter::Set(es) => {
                        self.tok("{");
                        for (i, a) in es.iter().enumerate() {
                            if i > 0 {
                                self.tok(",");
                                self.osp();
                            }
                            self.expr(a, 0, false);
                        }
                        self.tok("}");
                    }
                    MIter::Expr(e) => self.expr(e, 0, false),
                }
                self.sp();
                self.body(body);
            }
            MStmt::Switch { control, cases, default } => {
                self.tok("switch");
                self.osp();
                self.tok("(");
                self.expr(control, 0, false);
                self.tok(")");
                self.osp();
                self.tok("{");
                self.osp();
                for (vals, ss) in cases {
                    self.tok("case");
                    self.sp();
                    for (i, a) in vals.iter().enumerate() {
                        if i > 0 {
                            self.tok(",");
                            self.osp();
                        }
                        self.expr(a, 0, false);
                    }
                    self.sp();
                    self.block(ss);
                    self.osp();
                }
                if let Some(ss) = default {
                    self.tok("default");
                    self.sp();
                    self.block(ss);
                    self.osp();
                }
                self.tok("}");
            }
            MStmt::Break => self.tok("break;"),
            MStmt::Continue => self.tok("continue;"),
            MStmt::End => self.tok("end;"),
            MStmt::GateDef { name, params, qubits, body } => {
                self.tok("gate");
                self.sp();
                self.tok(name);
                if !params.is_empty() {
                    self.tok("(");
                    self.tok(&params.join(", "));
                    self.tok(")");
                }
                self.sp();
                self.tok(&qubits.join(", "));
                self.sp();
                self.block(body);
            }
            MStmt::Def { name, params, ret, body } => {
                self.tok("def");
                self.sp();
                self.tok(name);
                self.tok("(");
                let ps: Vec<String> = params.iter().map(|(t, n)| format!("{t} {n}")).collect();
                self.tok(&ps.join(", "));
                self.tok(")");
                if let Some(r) = ret {
                    self.osp();
                    self.tok("->");
                    self.osp();
                    self.tok(r);
                }
                self.sp();
                self.block(body);
            }
            MStmt::Return(e) => {
                self.tok("return");
                if let Some(e) = e {
                    self.sp();
                    self.expr(e, 0, false);
                }
                self.tok(";");
            }
            MStmt::Alias { name, rhs } => {
                self.tok("let");
                self.sp();
                self.tok(name);
                self.osp();
                self.tok("=");
                self.osp();
                self.expr(rhs, 0, false);
                self.tok(";");
            }
            MStmt::Pragma(t) => {
                self.tok("pragma ");
                self.tok(t);
                self.tok("\n");
            }
            MStmt::Annotation(t) => {
                self.tok("@");
                self.tok(t);
                self.tok("\n");
            }
            MStmt::IncludeStd => self.tok("include \"stdgates.inc\";"),
            MStmt::ExprStmt(e) => {
                self.expr(e, 0, false);
                self.tok(";");
            }
            MStmt::Scope(ss) => self.block(ss),
            MStmt::Empty => self.tok(";"),
        }
    }
}

pub fn print_program(ss: &[MStmt], lay: Layout, rng: &mut Rng) -> (String, Vec<(usize, usize)>) {
    let mut p = Printer { lay, rng, out: String::new() };
    let mut spans = Vec::new();
    for s in ss {
        let a = p.out.len();
        p.stmt(s);
        spans.push((a, p.out.len()));
        if p.lay.trivia == 1 {
            p.sp();
        } else {
            p.out.push('\n');
        }
    }
    (p.out, spans)
}
pub fn print_expr(e: &MExpr, lay: Layout, rng: &mut Rng) -> String {
    let mut p = Printer { lay, rng, out: String::new() };
    p.expr(e, 0, false);
    p.out
}

// ---------------------------------------------------------------- generation
#[derive(Clone, Debug)]
pub struct Env {
    /// visible classical variables: (name, type text, is_const)
    pub vars: Vec<(String, String, bool)>,
    pub qubits: Vec<String>,
    pub qregs: Vec<(String, u64)>,
    /// (name, nparams, nqubits)
    pub gates: Vec<(String, usize, usize)>,
    /// (name, nparams, has return)
    pub defs: Vec<(String, usize, bool)>,
    pub counter: u32,
    pub global: bool,
    pub in_loop: bool,
    pub in_def: bool,
}

impl Env {
    pub fn new() -> Env {
        Env { vars: vec![], qubits: vec![], qregs: vec![], gates: vec![("U".into(), 3, 1)], defs: vec![], counter: 0, global: true, in_loop: false, in_def: false }
    }
    pub fn fresh(&mut self, p: &str) -> String {
        self.counter += 1;
        format!("{p}{}", self.counter)
    }
}

const INT_TYPES: &[&str] = &["int", "int[8]", "int[32]", "uint[16]", "uint"];
const FLOAT_TYPES: &[&str] = &["float", "float[32]", "float[64]"];

pub struct Gen<'a> {
    pub rng: &'a mut Rng,
    /// only arithmetic operators the analyser supports (so that the graph exists)
    pub sema_safe: bool,
}

impl<'a> Gen<'a> {
    fn pick<T: Clone>(&mut self, v: &[T]) -> T {
        v[self.rng.below(v.len() as u64) as usize].clone()
    }
    pub fn num_expr(&mut self, env: &Env, depth: u32) -> MExpr {
        let leaf = depth == 0 || self.rng.below(3) == 0;
        if leaf {
            let ints: Vec<&(String, String, bool)> = env.vars.iter().filter(|(_, t, _)| t.starts_with("int") || t.starts_with("uint") || t.starts_with("float")).collect();
            if !ints.is_empty() && self.rng.below(2) == 0 {
                return MExpr::Ident(ints[self.rng.below(ints.len() as u64) as usize].0.clone());
            }
            return match self.rng.below(4) {
                0 => MExpr::Float(self.pick(&["1.5", "0.25", "2.", "1e3"]).to_string()),
                _ => MExpr::Int(self.rng.below(100)),
            };
        }
        match self.rng.below(8) {
            0 if !self.sema_safe && self.rng.below(2) == 0 => {
                let op = if self.rng.below(2) == 0 { "!" } else { "~" };
                MExpr::Un(op, Box::new(self.num_expr(env, depth - 1)))
            }
            0 => MExpr::Neg(Box::new(self.num_expr(env, depth - 1))),
            1 => MExpr::Paren(Box::new(self.num_expr(env, depth - 1))),
            2 => MExpr::Cast(self.pick(&["int[32]", "float[64]", "uint[8]", "float"]).to_string(), Box::new(self.num_expr(env, depth - 1))),
            4 if !self.sema_safe && !env.vars.is_empty() => {
                let (n, _, _) = self.pick(&env.vars);
                MExpr::Index(Box::new(MExpr::Ident(n)), vec![self.num_expr(env, depth - 1)])
            }
            3 if !env.defs.is_empty() => {
                let (f, np, _) = self.pick(&env.defs);
                MExpr::Call(f, (0..np).map(|_| self.num_expr(env, 0)).collect())
            }
            _ => {
                let ops: &[&'static str] = if self.sema_safe {
                    &["+", "-", "*", "/", "%", "<<", ">>", "|", "^", "&"]
                } else {
                    &["+", "-", "*", "/", "%", "<<", ">>", "|", "^", "&", "**", "<", "<=", ">", ">=", "==", "!=", "&&", "||"]
                };
                let op = self.pick(ops);
                MExpr::Bin(op, Box::new(self.num_expr(env, depth - 1)), Box::new(self.num_expr(env, depth - 1)))
            }
        }
    }
    pub fn cond_expr(&mut self, env: &Env) -> MExpr {
        let bools: Vec<&(String, String, bool)> = env.vars.iter().filter(|(_, t, _)| t == "bool").collect();
        if !bools.is_empty() && self.rng.below(2) == 0 {
            return MExpr::Ident(bools[self.rng.below(bools.len() as u64) as usize].0.clone());
        }
        match self.rng.below(3) {
            0 => MExpr::Bool(self.rng.below(2) == 0),
            _ => {
                let op = self.pick(&["==", "!="]);
                MExpr::Bin(op, Box::new(self.num_expr(env, 1)), Box::new(self.num_expr(env, 1)))
            }
        }
    }
    pub fn qubit(&mut self, env: &Env) -> Option<MQubit> {
        let mut c: Vec<MQubit> = env.qubits.iter().map(|q| MQubit::Name(q.clone())).collect();
        for (r, w) in &env.qregs {
            c.push(MQubit::Indexed(r.clone(), self.rng.below(*w)));
            c.push(MQubit::Name(r.clone()));
        }
        if c.is_empty() {
            return Some(MQubit::Hw(self.rng.below(4) as u32));
        }
        Some(self.pick(&c))
    }

    pub fn body(&mut self, env: &mut Env, depth: u32) -> MBody {
        if self.rng.below(2) == 0 {
            let mut e2 = env.clone();
            e2.global = false;
            let n = self.rng.below(3) as usize;
            let ss = (0..n).map(|_| self.stmt(&mut e2, depth.saturating_sub(1))).collect();
            env.counter = e2.counter;
            MBody::Block(ss)
        } else {
            let mut e2 = env.clone();
            e2.global = false;
            // (the empty statement is a body too: `if (c) ; else x q;`)
            let s = if self.rng.below(8) == 0 { MStmt::Empty } else { self.simple_stmt(&mut e2) };
            env.counter = e2.counter;
            MBody::Single(Box::new(s))
        }
    }

    /// statements that neither declare in the enclosing scope in a way that matters nor nest
    pub fn simple_stmt(&mut self, env: &mut Env) -> MStmt {
        loop {
            match self.rng.below(6) {
                0 => {
                    let assignable: Vec<&(String, String, bool)> = env.vars.iter().filter(|(_, t, c)| !*c && (t.starts_with("int") || t.starts_with("float") || t.starts_with("uint"))).collect();
                    if let Some((n, _, _)) = assignable.first().cloned() {
                        let rhs = self.num_expr(env, 1);
                        // an assignment whose right-hand side has a binary operator at top level is a
                        // known parser finding; the model program parenthesises it
                        let rhs = if matches!(rhs, MExpr::Bin(..)) { MExpr::Paren(Box::new(rhs)) } else { rhs };
                        return MStmt::Assign { name: n.clone(), rhs };
                    }
                }
                1 => {
                    if let Some(q) = self.qubit(env) {
                        let (g, np, nq) = self.pick(&env.gates);
                        let params = (0..np).map(|_| self.num_expr(env, 1)).collect();
                        let mut qs = vec![q];
                        while qs.len() < nq {
                            qs.push(self.qubit(env).unwrap());
                        }
                        return MStmt::GateCall { mods: vec![], name: g, params, qubits: qs };
                    }
                }
                2 => {
                    if let Some(q) = self.qubit(env) {
                        return MStmt::Reset(q);
                    }
                }
                3 => {
                    if let Some(q) = self.qubit(env) {
                        return MStmt::Barrier(vec![q]);
                    }
                }
                4 if env.in_loop => return if self.rng.below(2) == 0 { MStmt::Break } else { MStmt::Continue },
                _ => {
                    let ty = self.pick(INT_TYPES).to_string();
                    let name = env.fresh("v");
                    let init = if self.rng.below(2) == 0 { Some(self.num_expr(env, 1)) } else { None };
                    env.vars.push((name.clone(), ty.clone(), false));
                    return MStmt::Decl { is_const: false, ty, name, init };
                }
            }
        }
    }

    pub fn stmt(&mut self, env: &mut Env, depth: u32) -> MStmt {
        let r = self.rng.below(24);
        match r {
            0 | 1 => {
                let ty = self.pick(INT_TYPES).to_string();
                let name = env.fresh("v");
                let is_const = self.rng.below(4) == 0;
                let init = if is_const || self.rng.below(2) == 0 { Some(self.num_expr(env, 2)) } else { None };
                env.vars.push((name.clone(), ty.clone(), is_const));
                MStmt::Decl { is_const, ty, name, init }
            }
            2 => {
                let ty = self.pick(FLOAT_TYPES).to_string();
                let name = env.fresh("f");
                let init = Some(self.num_expr(env, 2));
                env.vars.push((name.clone(), ty.clone(), false));
                MStmt::Decl { is_const: false, ty, name, init }
            }
            3 => {
                let name = env.fresh("b");
                env.vars.push((name.clone(), "bool".into(), false));
                MStmt::Decl { is_const: false, ty: "bool".into(), name, init: Some(MExpr::Bool(self.rng.below(2) == 0)) }
            }
            4 if env.global => {
                let name = env.fresh("q");
                if self.rng.below(2) == 0 {
                    env.qubits.push(name.clone());
                    MStmt::Qubit { name, width: None }
                } else {
                    let w = 1 + self.rng.below(4);
                    env.qregs.push((name.clone(), w));
                    MStmt::Qubit { name, width: Some(w) }
                }
            }
            5 if depth > 0 => {
                let cond = self.cond_expr(env);
                let then = self.body(env, depth);
                let els = match self.rng.below(5) {
                    0 | 1 => None,
                    2 => {
                        // else-if chain
                        let c2 = self.cond_expr(env);
                        let t2 = self.body(env, depth);
                        let e2 = if self.rng.below(2) == 0 { Some(self.body(env, depth)) } else { None };
                        Some(MBody::Single(Box::new(MStmt::If { cond: c2, then: t2, els: e2 })))
                    }
                    _ => Some(self.body(env, depth)),
                };
                MStmt::If { cond, then, els }
            }
            6 if depth > 0 => {
                let cond = self.cond_expr(env);
                let was = env.in_loop;
                env.in_loop = true;
                let body = self.body(env, depth);
                env.in_loop = was;
                MStmt::While { cond, body }
            }
            7 if depth > 0 => {
                let var = env.fresh("i");
                let ty = self.pick(&["int", "uint[8]", "int[32]"]).to_string();
                let iter = match self.rng.below(3) {
                    0 => MIter::Range(self.num_expr(env, 0), if self.rng.below(2) == 0 { Some(MExpr::Int(1 + self.rng.below(3))) } else { None }, self.num_expr(env, 0)),
                    1 => MIter::Set((0..1 + self.rng.below(3)).map(|_| self.num_expr(env, 0)).collect()),
                    _ => MIter::Range(MExpr::Int(0), None, MExpr::Int(self.rng.below(9))),
                };
                let mut e2 = env.clone();
                e2.vars.push((var.clone(), ty.clone(), false));
                e2.in_loop = true;
                let body = self.body(&mut e2, depth);
                env.counter = e2.counter;
                MStmt::For { ty, var, iter, body }
            }
            8 if depth > 0 => {
                let control = self.num_expr(env, 0);
                let ncase = 1 + self.rng.below(2) as usize;
                let mut cases = Vec::new();
                for _ in 0..ncase {
                    let vals = (0..1 + self.rng.below(2)).map(|_| MExpr::Int(self.rng.below(9))).collect();
                    let mut e2 = env.clone();
                    e2.global = false;
                    let ss = (0..self.rng.below(3)).map(|_| self.simple_stmt(&mut e2)).collect();
                    env.counter = e2.counter;
                    cases.push((vals, ss));
                }
                let default = if self.rng.below(2) == 0 {
                    let mut e2 = env.clone();
                    e2.global = false;
                    let ss = (0..self.rng.below(2)).map(|_| self.simple_stmt(&mut e2)).collect();
                    env.counter = e2.counter;
                    Some(ss)
                } else {
                    None
                };
                MStmt::Switch { control, cases, default }
            }
            // mostly at global scope; sometimes inside a block (reported, but still translated)
            9 if env.global || self.rng.below(5) == 0 => {
                let name = env.fresh("g");
                let np = self.rng.below(3) as usize;
                let nq = 1 + self.rng.below(3) as usize;
                let params: Vec<String> = (0..np).map(|i| format!("p{i}")).collect();
                let qubits: Vec<String> = (0..nq).map(|i| format!("a{i}")).collect();
                let mut e2 = Env::new();
                e2.gates = env.gates.clone();
                e2.global = false;
                e2.qubits = qubits.clone();
                e2.counter = env.counter;
                let nb = self.rng.below(3);
                let mut body = Vec::new();
                for _ in 0..nb {
                    let (g, gnp, gnq) = self.pick(&e2.gates);
                    let ps = (0..gnp).map(|_| if np > 0 && self.rng.below(2) == 0 { MExpr::Ident(self.pick(&params)) } else { MExpr::Float("0.5".into()) }).collect();
                    let qs = (0..gnq).map(|_| MQubit::Name(self.pick(&qubits))).collect();
                    body.push(MStmt::GateCall { mods: vec![], name: g, params: ps, qubits: qs });
                }
                env.counter = e2.counter;
                env.gates.push((name.clone(), np, nq));
                MStmt::GateDef { name, params, qubits, body }
            }
            10 if env.global || self.rng.below(5) == 0 => {
                let name = env.fresh("fn");
                let np = self.rng.below(3) as usize;
                let params: Vec<(String, String)> = (0..np).map(|i| (self.pick(INT_TYPES).to_string(), format!("x{i}"))).collect();
                let ret = if self.rng.below(3) > 0 { Some(self.pick(INT_TYPES).to_string()) } else { None };
                let mut e2 = Env::new();
                e2.global = false;
                e2.in_def = true;
                e2.counter = env.counter;
                for (t, n) in &params {
                    e2.vars.push((n.clone(), t.clone(), false));
                }
                let mut body: Vec<MStmt> = (0..self.rng.below(2)).map(|_| self.simple_stmt(&mut e2)).collect();
                if ret.is_some() {
                    body.push(MStmt::Return(Some(self.num_expr(&e2, 1))));
                }
                env.counter = e2.counter;
                env.defs.push((name.clone(), np, ret.is_some()));
                MStmt::Def { name, params, ret, body }
            }
            11 => MStmt::Pragma(self.pick(&["my pragma text", "x \"y\" // z", "1 2 3"]).to_string()),
            12 => {
                // an annotation followed by the statement it attaches to is generated by the caller
                MStmt::Annotation(self.pick(&["bind a b", "mark", "reversible yes"]).to_string())
            }
            13 if env.global && !env.gates.iter().any(|(g, _, _)| g == "h") => {
                for (g, np, nq) in [("h", 0, 1), ("x", 0, 1), ("cx", 0, 2), ("rz", 1, 1), ("ccx", 0, 3), ("cp", 1, 2)] {
                    env.gates.push((g.to_string(), np, nq));
                }
                MStmt::IncludeStd
            }
            14 => {
                if let Some(q) = self.qubit(env) {
                    let (g, np, nq) = self.pick(&env.gates);
                    let params = (0..np).map(|_| self.num_expr(env, 1)).collect();
                    let mut qs = vec![q];
                    while qs.len() < nq {
                        qs.push(self.qubit(env).unwrap());
                    }
                    let nm = self.rng.below(3);
                    let mut mods = Vec::new();
                    for _ in 0..nm {
                        mods.push(match self.rng.below(4) {
                            0 => MMod::Inv,
                            1 => MMod::Pow(self.num_expr(env, 0)),
                            2 => MMod::Ctrl(if self.rng.below(2) == 0 { Some(MExpr::Int(1 + self.rng.below(2))) } else { None }),
                            _ => MMod::NegCtrl(None),
                        });
                    }
                    // ctrl modifiers add control qubits
                    for m in &mods {
                        let extra = match m {
                            MMod::Ctrl(Some(MExpr::Int(n))) => *n as usize,
                            MMod::Ctrl(None) | MMod::NegCtrl(None) => 1,
                            _ => 0,
                        };
                        for _ in 0..extra {
                            qs.push(self.qubit(env).unwrap());
                        }
                    }
                    return MStmt::GateCall { mods, name: g, params, qubits: qs };
                }
                MStmt::Empty
            }
            15 if !env.vars.is_empty() => {
                // measurement into a bit / bare measurement
                if let Some(q) = self.qubit(env) {
                    return MStmt::ExprStmt(MExpr::Measure(Box::new(q)));
                }
                MStmt::Empty
            }
            16 => {
                if let Some(q) = self.qubit(env) {
                    let num = if self.rng.below(3) == 0 { format!("{}.5", self.rng.below(9)) } else { (1 + self.rng.below(50)).to_string() };
                    return MStmt::Delay(MExpr::Timing(num, self.pick(&["ns", "us", "dt", "ms", "µs", "s"])), vec![q]);
                }
                MStmt::Empty
            }
            17 if env.global && !env.qregs.is_empty() && !self.sema_safe => {
                let (r, w) = self.pick(&env.qregs);
                let name = env.fresh("al");
                let rhs = MExpr::Index(Box::new(MExpr::Ident(r)), vec![MExpr::Int(self.rng.below(w))]);
                MStmt::Alias { name, rhs }
            }
            18 if env.global => {
                let name = env.fresh("io");
                let ty = self.pick(INT_TYPES).to_string();
                env.vars.push((name.clone(), ty.clone(), false));
                MStmt::IODecl { input: self.rng.below(2) == 0, ty, name }
            }
            19 => MStmt::GPhase { mods: vec![], arg: self.num_expr(env, 1) },
            20 if env.in_def => MStmt::Return(None),
            22 if !self.sema_safe => {
                let mut e2 = env.clone();
                e2.global = false;
                let n = self.rng.below(3);
                let ss = (0..n).map(|_| self.simple_stmt(&mut e2)).collect();
                env.counter = e2.counter;
                MStmt::Scope(ss)
            }
            23 if !self.sema_safe => {
                // expression statements that start with an operator or a bracket
                let e = self.num_expr(env, 1);
                // (a statement starting with `-` directly after an assignment is the listed C16 finding
                //  "operator glued to a preceding assignment"; the template pairs cover it)
                match self.rng.below(2) {
                    0 => MStmt::ExprStmt(MExpr::Bin("*", Box::new(MExpr::Paren(Box::new(e))), Box::new(MExpr::Int(2)))),
                    _ => MStmt::ExprStmt(MExpr::Paren(Box::new(e))),
                }
            }
            21 => MStmt::End,
            _ => self.simple_stmt(env),
        }
    }

    pub fn program(&mut self, n: usize, depth: u32) -> Vec<MStmt> {
        let mut env = Env::new();
        let mut v = Vec::new();
        // make sure there is something to work with
        v.push(MStmt::Qubit { name: "q0".into(), width: None });
        env.qubits.push("q0".into());
        while v.len() < n {
            let s = self.stmt(&mut env, depth);
            let is_ann = matches!(s, MStmt::Annotation(_));
            v.push(s);
            if is_ann {
                // an annotation needs a statement to attach to
                let s2 = self.simple_stmt(&mut env);
                v.push(s2);
            }
        }
        v
    }
}
