// Running the semantic analyser on a text and dumping what it returned, through public API and
// Debug formatting (every ASG type derives Debug; snapshot tests pin that format).
use oq3_semantics::semantic_error::SemanticErrorList;
use oq3_semantics::symbols::{SymbolId, SymbolType};
use oq3_semantics::syntax_to_semantics::{parse_source_file, parse_source_file_with_search, parse_source_string, parse_source_string_with_path_search};
use std::path::PathBuf;

#[derive(Debug, Clone)]
pub struct SemaOut {
    pub panic: Option<String>,
    pub syntax_errors: usize,
    pub any_syntax: bool,
    /// Debug form of each top-level ASG statement
    pub stmts: Vec<String>,
    /// (name, type Debug) for every symbol in id order
    pub symbols: Vec<(String, String)>,
    /// (kind Debug, start, end, file) in order, top-level list then included lists depth-first
    pub errors: Vec<(String, u32, u32, String)>,
    pub scope_depth: usize,
    pub gates: Vec<(String, usize, usize)>,
}

fn collect_errors(l: &SemanticErrorList, out: &mut Vec<(String, u32, u32, String)>) {
    for e in l.iter() {
        let r = e.range();
        out.push((format!("{:?}", e.kind()), u32::from(r.start()), u32::from(r.end()), l.source_file_path().display().to_string()));
    }
    for inc in l.include_errors() {
        collect_errors(inc, out);
    }
}

fn extract<T: oq3_source_file::SourceTrait>(res: &oq3_semantics::syntax_to_semantics::ParseResult<T>) -> SemaOut {
    let nsyn = res.num_syntax_errors();
    let any_syntax = res.any_syntax_errors();
    let stmts: Vec<String> = res.program().stmts().iter().map(|s| format!("{s:?}")).collect();
    let table = res.symbol_table();
    let n = table.verif_num_symbols();
    let mut symbols = Vec::new();
    let mut id = SymbolId::new();
    for _ in 0..n {
        let cur = id.post_increment();
        let sym = &table[&cur];
        symbols.push((sym.name().to_string(), format!("{:?}", sym.symbol_type())));
    }
    let mut errors = Vec::new();
    collect_errors(res.semantic_errors(), &mut errors);
    let gates = table.gates().map(|(n, _, a, b)| (n.to_string(), a, b)).collect();
    SemaOut { panic: None, syntax_errors: nsyn, any_syntax, stmts, symbols, errors, scope_depth: table.verif_scope_depth(), gates }
}

fn guarded(desc: &str, f: impl FnOnce() -> SemaOut) -> SemaOut {
    crate::util::watch_case(desc);
    let r = std::panic::catch_unwind(std::panic::AssertUnwindSafe(f));
    crate::util::watch_idle();
    match r {
        Ok(o) => o,
        Err(e) => {
            let msg = if let Some(s) = e.downcast_ref::<&str>() {
                s.to_string()
            } else if let Some(s) = e.downcast_ref::<String>() {
                s.clone()
            } else {
                "panic".to_string()
            };
            SemaOut {
                panic: Some(msg.replace(['\t', '\n'], " ")),
                syntax_errors: 0,
                any_syntax: false,
                stmts: vec![],
                symbols: vec![],
                errors: vec![],
                scope_depth: 0,
                gates: vec![],
            }
        }
    }
}

pub fn run_sema_with(text: &str, search: Option<&[PathBuf]>) -> SemaOut {
    guarded(text, || {
        let res = match search {
            Some(s) => parse_source_string_with_path_search(text, None, Some(s)),
            None => parse_source_string(text, None),
        };
        extract(&res)
    })
}

/// the string entry point, followed by printing all diagnostics (standard output must be redirected by the caller)
pub fn run_sema_print(text: &str, search: Option<&[PathBuf]>) -> SemaOut {
    guarded(text, || {
        let res = match search {
            Some(s) => parse_source_string_with_path_search(text, Some("fake.qasm"), Some(s)),
            None => parse_source_string(text, Some("fake.qasm")),
        };
        res.print_errors();
        extract(&res)
    })
}

/// the file entry points: `parse_source_file_with_search` (search list given, or `with_search_none`) or
/// `parse_source_file`; `print` also prints the diagnostics
pub fn run_sema_file(path: &std::path::Path, search: Option<&[PathBuf]>, with_search_none: bool, print: bool) -> SemaOut {
    guarded(&std::fs::read_to_string(path).unwrap_or_else(|_| path.display().to_string()), || {
        let res = match search {
            Some(s) => parse_source_file_with_search(path, Some(s)),
            None if with_search_none => parse_source_file_with_search(path, None::<&[PathBuf]>),
            None => parse_source_file(path),
        };
        if print {
            res.print_errors();
        }
        extract(&res)
    })
}

pub fn run_sema(text: &str) -> SemaOut {
    run_sema_with(text, None)
}

// ---------------------------------------------------------------- generic Debug-format tree
#[derive(Debug, Clone, PartialEq)]
pub enum D {
    /// Name(args) / Name { f: v } / Name
    Node(String, Vec<(Option<String>, D)>),
    List(Vec<D>),
    Str(String),
    Atom(String),
}

pub fn parse_debug(s: &str) -> D {
    let cs: Vec<char> = s.chars().collect();
    let mut i = 0;
    let d = parse_d(&cs, &mut i);
    d
}
fn ws(cs: &[char], i: &mut usize) {
    while *i < cs.len() && cs[*i].is_whitespace() {
        *i += 1;
    }
}
fn parse_d(cs: &[char], i: &mut usize) -> D {
    ws(cs, i);
    if *i >= cs.len() {
        return D::Atom(String::new());
    }
    match cs[*i] {
        '[' => {
            *i += 1;
            let mut v = Vec::new();
            loop {
                ws(cs, i);
                if *i < cs.len() && cs[*i] == ']' {
                    *i += 1;
                    break;
                }
                v.push(parse_d(cs, i));
                ws(cs, i);
                if *i < cs.len() && cs[*i] == ',' {
                    *i += 1;
                }
                if *i >= cs.len() {
                    break;
                }
            }
            D::List(v)
        }
        '"' => {
            *i += 1;
            let mut s = String::new();
            while *i < cs.len() && cs[*i] != '"' {
                if cs[*i] == '\\' && *i + 1 < cs.len() {
                    s.push(cs[*i]);
                    *i += 1;
                }
                s.push(cs[*i]);
                *i += 1;
            }
            *i += 1;
            D::Str(s)
        }
        '(' => {
            // a tuple
            *i += 1;
            let mut v = Vec::new();
            loop {
                ws(cs, i);
                if *i < cs.len() && cs[*i] == ')' {
                    *i += 1;
                    break;
                }
                v.push((None, parse_d(cs, i)));
                ws(cs, i);
                if *i < cs.len() && cs[*i] == ',' {
                    *i += 1;
                }
                if *i >= cs.len() {
                    break;
                }
            }
            D::Node("".into(), v)
        }
        _ => {
            let mut name = String::new();
            while *i < cs.len() && (cs[*i].is_alphanumeric() || "_-.:+".contains(cs[*i])) {
                name.push(cs[*i]);
                *i += 1;
            }
            ws(cs, i);
            if *i < cs.len() && cs[*i] == '(' {
                *i += 1;
                let mut v = Vec::new();
                loop {
                    ws(cs, i);
                    if *i < cs.len() && cs[*i] == ')' {
                        *i += 1;
                        break;
                    }
                    v.push((None, parse_d(cs, i)));
                    ws(cs, i);
                    if *i < cs.len() && cs[*i] == ',' {
                        *i += 1;
                    }
                    if *i >= cs.len() {
                        break;
                    }
                }
                D::Node(name, v)
            } else if *i < cs.len() && cs[*i] == '{' {
                *i += 1;
                let mut v = Vec::new();
                loop {
                    ws(cs, i);
                    if *i < cs.len() && cs[*i] == '}' {
                        *i += 1;
                        break;
                    }
                    let mut f = String::new();
                    while *i < cs.len() && (cs[*i].is_alphanumeric() || cs[*i] == '_') {
                        f.push(cs[*i]);
                        *i += 1;
                    }
                    ws(cs, i);
                    if *i < cs.len() && cs[*i] == ':' {
                        *i += 1;
                    }
                    v.push((Some(f), parse_d(cs, i)));
                    ws(cs, i);
                    if *i < cs.len() && cs[*i] == ',' {
                        *i += 1;
                    }
                    if *i >= cs.len() {
                        break;
                    }
                }
                D::Node(name, v)
            } else if name.is_empty() {
                // unknown character: skip it
                *i += 1;
                D::Atom("?".into())
            } else {
                D::Atom(name)
            }
        }
    }
}

impl D {
    pub fn name(&self) -> &str {
        match self {
            D::Node(n, _) => n,
            D::Atom(a) => a,
            _ => "",
        }
    }
    pub fn field(&self, f: &str) -> Option<&D> {
        if let D::Node(_, v) = self {
            v.iter().find(|(k, _)| k.as_deref() == Some(f)).map(|(_, d)| d)
        } else {
            None
        }
    }
    pub fn arg(&self, i: usize) -> Option<&D> {
        if let D::Node(_, v) = self {
            v.get(i).map(|(_, d)| d)
        } else {
            None
        }
    }
    pub fn list(&self) -> &[D] {
        if let D::List(v) = self {
            v
        } else {
            &[]
        }
    }
    /// visit every node in pre-order
    pub fn walk<'a>(&'a self, f: &mut dyn FnMut(&'a D)) {
        f(self);
        match self {
            D::Node(_, v) => {
                for (_, d) in v {
                    d.walk(f);
                }
            }
            D::List(v) => {
                for d in v {
                    d.walk(f);
                }
            }
            _ => {}
        }
    }
}

/// C12 for semantic diagnostics: every diagnostic of the top-level text (tag "no file") has a range within the
/// text, on character boundaries, that is the range of a node of the text's syntax tree.
pub fn sem_range_violation(text: &str, o: &SemaOut) -> Option<String> {
    if o.panic.is_some() || o.errors.is_empty() {
        return None;
    }
    let node_ranges = |t: &str| -> std::collections::HashSet<(u32, u32)> {
        let parse = oq3_syntax::SourceFile::parse(t);
        parse.syntax_node().descendants().map(|n| (u32::from(n.text_range().start()), u32::from(n.text_range().end()))).collect()
    };
    let top = node_ranges(text);
    for (k, a, b, file) in &o.errors {
        // a diagnostic of an included file refers to that file's text and tree
        let other: Option<(String, std::collections::HashSet<(u32, u32)>)> = if file == "no file" || file == "fake.qasm" {
            None
        } else {
            match std::fs::read_to_string(file) {
                Ok(t) => {
                    let r = node_ranges(&t);
                    Some((t, r))
                }
                Err(_) => continue,
            }
        };
        let (text, ranges): (&str, &std::collections::HashSet<(u32, u32)>) = match &other {
            Some((t, r)) => (t.as_str(), r),
            None => (text, &top),
        };
        let (ua, ub) = (*a as usize, *b as usize);
        if !(ua <= ub && ub <= text.len()) {
            return Some(format!("FAIL C12: semantic diagnostic {k} has range {a}..{b} outside the text of length {}", text.len()));
        }
        if !text.is_char_boundary(ua) || !text.is_char_boundary(ub) {
            return Some(format!("FAIL C12: semantic diagnostic {k} has range {a}..{b} inside a character"));
        }
        if !ranges.contains(&(*a, *b)) {
            return Some(format!("FAIL C12: the range {a}..{b} (`{}`) of semantic diagnostic {k} is not the range of a node of the tree", &text[ua..ub]));
        }
    }
    None
}
