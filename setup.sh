#!/bin/bash
# Build the whole framework from files on disk only (offline).
set -e
cd "$(dirname "$0")"
export CARGO_NET_OFFLINE=true CARGO_TARGET_DIR=$PWD/build/target
mkdir -p build/extract evidence replays
cp /repo/Cargo.lock harness/Cargo.lock
(cd harness && cargo build --release --offline)
python3 tools/gen_tables.py
(cd coq && coq_makefile -f _CoqProject -o Makefile >/dev/null && timeout 3000 make -j16)
python3 - <<'PY'
import sys
sys.path.insert(0, 'tools')
import check
ok, msg = check.build_driver()
print('driver', ok, msg)
sys.exit(0 if ok else 1)
PY
