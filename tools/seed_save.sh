#!/bin/bash
# usage: seed_save.sh <prop id = worktree /tmp/mut/<id>> <name> <description>: re-run the suite in the worktree, store patch + demo + meta
id=$1; name=$2; desc=$3; d=/verif/seeded/$name
res=$(cd /tmp/mut/$id && cargo test --workspace --no-fail-fast --offline 2>&1 | grep -E "^test result" | awk '{p+=$4; f+=$6} END {print p" passed, "f" failed"}')
echo "suite: $res"
[ "$res" = "228 passed, 0 failed" ] || { echo "NOT KEPT"; exit 1; }
mkdir -p $d; git -C /tmp/mut/$id diff > $d/patch.diff; cp /tmp/mut/$id/DEMO.md $d/DEMO.md 2>/dev/null; rm -rf $d/demo; cp -r /tmp/mut/$id/demo $d/demo 2>/dev/null
python3 - "$id" "$name" "$desc" "$res" <<'PY'
import json,sys,subprocess
id,name,desc,res=sys.argv[1:5]
files=subprocess.check_output(['git','-C',f'/tmp/mut/{id}','diff','--name-only']).decode().split()
json.dump({"id":name,"property":id,"description":desc,"files":files,"origin":"sub-agent given only the property text and a scratch worktree","confirmed":{"compiles":True,"suite":res+" (re-run by me in the scratch worktree)","demonstration":"re-run by me, see DEMO.md"},"base_commit":subprocess.check_output(['git','-C','/repo','rev-parse','--short','HEAD']).decode().strip()},open(f'/verif/seeded/{name}/meta.json','w'),indent=1)
PY
