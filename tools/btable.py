#!/usr/bin/env python3
"""dev helper: rewrite the global dispatch table at the end of coq/Proofs/GrammarB<n>.v
from the `Lemma <f>_B ... : Spec[ACL]` statements of that file (usage: btable.py <n>)."""
import re, sys
n = int(sys.argv[1])
p = '/verif/coq/Proofs/GrammarB%d.v' % n
s = open(p).read()
a = s.index('\nEnd B.')
body, tail = s[:a], s[a:]
cases = []
for m in re.finditer(r'^Lemma (\w+)_B\b[^:]*:\s*(Spec[ACL])', body, re.M):
    cases.append((m.group(1), m.group(2)[-1]))
prev = 'b_gb' if n == 1 else 'b_g%d' % (n - 1)
out = '\nEnd B.\n\n'
if n == 1:
    m = re.search(r'Ltac b_gb :=.*?\n  end\.\n', tail, re.S)
    out += m.group(0)
out += 'Ltac b_g%d :=\n  lazymatch goal with |- WB ?f _ _ =>\n    let h := head_of f in\n    lazymatch h with\n' % n
merged = {}
for fn, k in cases:
    base = re.sub(r'_(none|some)$', '', fn)
    merged.setdefault(base, []).append('b_call%s %s_B' % (k, fn))
for base, alts in merged.items():
    out += '    | @%s => %s\n' % (base, alts[0] if len(alts) == 1 else 'first [ ' + ' | '.join(alts) + ' ]')
out += '    | _ => %s\n    end\n  end.\nLtac b_known ::= b_g%d.\n' % (prev, n)
open(p, 'w').write(body + out)
