"""Per-property registry: Coq target, correspondence families (harness arguments per tier), rule text."""

PROPS = {
    'C19': {
        'coq': 'Props/C19.v',
        'families': [
            {'name': 'symtab',
             'args': {'quick': ['--exhaustive', 6, '--random', 400], 'thorough': ['--exhaustive', 8, '--random', 20000]},
             'shards': {'quick': 16, 'thorough': 16},
             'driver_args': ['--nodedupe']},
        ],
        'exhaustive': {'quick': True, 'thorough': True},
        'rule': 'every history of length <= 6 (quick) / <= 8 (thorough) over the 9 operations {enter local, enter subroutine, '
                'exit, bind a|b as int|qubit, lookup a|b}, enumerated exhaustively (distinct by construction), plus random '
                'histories up to length 200 over the names {a, b, pi, U} (two collide with built-ins) incl. enter-calibration '
                'and lookup_or_new_binding; non-trivial = contains a binding and a look-up or exit',
        'trusted_base': ['model Model/SymTab.v of symbols.rs:SymbolTable (hand-written); hook verif_enter_scope/verif_scope_depth/verif_num_symbols',
                         'hashbrown::HashMap behaves as a finite map (modelled as association list)'],
        'assumptions': ['names and types are compared through the harness encoding (11 names, 4 types)'],
    },
    'C20': {
        'coq': 'Props/C20.v',
        'families': [
            {'name': 'types',
             'args': {'quick': ['--triples', 200000], 'thorough': ['--triples', 100000000]},
             'driver_args': []},
        ],
        'exhaustive': {'quick': True, 'thorough': True},
        'rule': 'every type of the finite abstraction (27 constructors x widths {none,1,8,32,64,128,2^32-1} x const x 5 array '
                'shapes, 3 gate arities, 6 subroutine types = 144 types), every ordered pair (20736) through every function of '
                'types.rs and implicit_cast_type, and triples for associativity (200000 random in quick, all 2985984 in thorough); '
                'non-trivial = the two types differ',
        'trusted_base': ['model Model/Types.v of types.rs and asg.rs:implicit_cast_type (hand-written, exhaustively compared on the abstraction)',
                         'order and known classes: Model/TypesSpec.v; hook verif_equal_up_to_constness'],
        'assumptions': ['behaviour of types.rs depends on widths only through ==, max and None-ness (so 7 widths represent all)'],
    },
    'C14': {
        'coq': 'Props/C14.v',
        'families': [
            {'name': 'lex',
             'args': {'quick': ['--exhaustive', 5, '--random', 4000, '--lexemes', 1500, '--malformed', 1500],
                      'thorough': ['--exhaustive', 6, '--random', 200000, '--lexemes', 50000, '--malformed', 50000]},
             'shards': {'quick': 16, 'thorough': 16},
             'driver_args': []},
        ],
        'exhaustive': {'quick': True, 'thorough': True},
        'rule': 'every string of length <= 5 (quick) / <= 6 (thorough) over the 14-character alphabet p O # @ " \' / * . 0 e _ LF U+00B5 '
                '(exhaustive), random concatenations of lexically critical fragments (NUL, BOM, 4-byte scalars, emoji, ZWJ, Unicode '
                'blanks, quotes, prefixes), generated lexeme sequences in two layouts, and sequences with one malformed lexeme; '
                'non-trivial = at least two characters, counted once per distinct text (hash)',
        'trusted_base': ['model Model/Lexer.v of oq3_lexer/src/{lib,cursor}.rs and Model/Lexed.v of lexed_str.rs (hand-written)',
                         'Unicode class bits (XID_Start, XID_Continue, Emoji) computed by the harness with the unicode-xid / unicode-properties versions of /repo/Cargo.lock; theorems hold for any assignment',
                         'generated kind table coq/gen/Kinds.v (tools/gen_tables.py, regenerated from syntax_kind_enum.rs every run)'],
        'assumptions': ['inputs shorter than 2^32 bytes (u32 offsets); fewer than 2^31 line breaks inside one string literal (i32 counter)'],
    },
}
