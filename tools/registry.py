"""Per-property registry: Coq target, correspondence families (harness arguments per tier), rule text."""

PROPS = {
    'C19': {
        'coq': 'Props/C19.v',
        'families': [
            {'name': 'symtab',
             'args': {'quick': ['--exhaustive', 6, '--random', 400], 'thorough': ['--exhaustive', 8, '--random', 20000]},
             'shards': {'quick': 16, 'thorough': 16},
             'driver_args': ['--nodedupe']},
        ],
        'exhaustive': {'quick': True, 'thorough': True},
        'rule': 'every history of length <= 6 (quick) / <= 8 (thorough) over the 9 operations {enter local, enter subroutine, '
                'exit, bind a|b as int|qubit, lookup a|b}, enumerated exhaustively (distinct by construction), plus random '
                'histories up to length 200 over the names {a, b, pi, U} (two collide with built-ins) incl. enter-calibration '
                'and lookup_or_new_binding; non-trivial = contains a binding and a look-up or exit',
        'trusted_base': ['model Model/SymTab.v of symbols.rs:SymbolTable (hand-written); hook verif_enter_scope/verif_scope_depth/verif_num_symbols',
                         'hashbrown::HashMap behaves as a finite map (modelled as association list)'],
        'assumptions': ['names and types are compared through the harness encoding (11 names, 4 types)'],
    },
    'C20': {
        'coq': 'Props/C20.v',
        'families': [
            {'name': 'types',
             'args': {'quick': ['--triples', 200000], 'thorough': ['--triples', 100000000]},
             'driver_args': []},
        ],
        'exhaustive': {'quick': True, 'thorough': True},
        'rule': 'every type of the finite abstraction (27 constructors x widths {none,1,8,32,64,128,2^32-1} x const x 5 array '
                'shapes, 3 gate arities, 6 subroutine types = 144 types), every ordered pair (20736) through every function of '
                'types.rs and implicit_cast_type, and triples for associativity (200000 random in quick, all 2985984 in thorough); '
                'non-trivial = the two types differ',
        'trusted_base': ['model Model/Types.v of types.rs and asg.rs:implicit_cast_type (hand-written, exhaustively compared on the abstraction)',
                         'order and known classes: Model/TypesSpec.v; hook verif_equal_up_to_constness'],
        'assumptions': ['behaviour of types.rs depends on widths only through ==, max and None-ness (so 7 widths represent all)'],
    },
    'C14': {
        'coq': 'Props/C14.v',
        'families': [
            {'name': 'lex',
             'args': {'quick': ['--exhaustive', 5, '--random', 4000, '--lexemes', 1500, '--malformed', 1500],
                      'thorough': ['--exhaustive', 6, '--random', 200000, '--lexemes', 50000, '--malformed', 50000]},
             'shards': {'quick': 16, 'thorough': 16},
             'driver_args': []},
        ],
        'exhaustive': {'quick': True, 'thorough': True},
        'rule': 'every string of length <= 5 (quick) / <= 6 (thorough) over the 14-character alphabet p O # @ " \' / * . 0 e _ LF U+00B5 '
                '(exhaustive), random concatenations of lexically critical fragments (NUL, BOM, 4-byte scalars, emoji, ZWJ, Unicode '
                'blanks, quotes, prefixes), generated lexeme sequences in two layouts, and sequences with one malformed lexeme; '
                'non-trivial = at least two characters, counted once per distinct text (hash)',
        'trusted_base': ['model Model/Lexer.v of oq3_lexer/src/{lib,cursor}.rs and Model/Lexed.v of lexed_str.rs (hand-written)',
                         'Unicode class bits (XID_Start, XID_Continue, Emoji) computed by the harness with the unicode-xid / unicode-properties versions of /repo/Cargo.lock; theorems hold for any assignment',
                         'generated kind table coq/gen/Kinds.v (tools/gen_tables.py, regenerated from syntax_kind_enum.rs every run)'],
        'assumptions': ['inputs shorter than 2^32 bytes (u32 offsets); fewer than 2^31 line breaks inside one string literal (i32 counter)'],
    },
    'C01': {
        'coq': 'Props/C01.v',
        'families': [
            {'name': 'pk',
             'args': {'quick': ['--exhaustive', 3, '--boundary', 2, '--long', 200, '--random', 20000], 'thorough': ['--exhaustive', 4, '--boundary', 2, '--long', 5000, '--random', 300000]},
             'shards': {'quick': 16, 'thorough': 16}, 'driver_args': ['--nodedupe']},
            {'name': 'tree',
             'args': {'quick': ['--corpus', 1, '--joints', 1, '--mutants', 1500, '--lexemes', 800, '--templates', 2500, '--random', 1500, '--escapes', 1500],
                      'thorough': ['--corpus', 1, '--mutants', 60000, '--lexemes', 30000, '--templates', 100000, '--random', 60000, '--escapes', 60000]},
             'shards': {'quick': 16, 'thorough': 16}, 'driver_args': []},
            {'name': 'lex',
             'args': {'quick': ['--exhaustive', 4, '--random', 2000], 'thorough': ['--exhaustive', 6, '--random', 100000]},
             'shards': {'quick': 16, 'thorough': 16}, 'driver_args': []},
        ],
        'exhaustive': {'quick': True, 'thorough': True},
        'rule': 'token level: every sequence of length <= 3 (quick) / <= 4 (thorough) over the 91 kinds the lexer can emit, once with all '
                'tokens separated and once all adjacent (joint), plus random sequences of length 1..14 with random joint bits; text level: '
                'the 50 corpus snippets, token-level mutants of windows of them, random lexeme sequences, statement templates with random '
                'expression holes, fragment soups; lexer: all strings of length <= 4/6 over the 14-character alphabet. Non-trivial = at '
                'least 2 tokens / 3 characters; exhaustive cases are distinct by construction, the others are counted once per distinct text',
        'trusted_base': ['models Model/{Lexer,Lexed,Parser,Grammar,Builder}.v of oq3_lexer, oq3_parser (parser.rs, event.rs, token_set.rs, input.rs, grammar/**, shortcuts.rs, lexed_str.rs) and oq3_syntax (parsing.rs, syntax_node.rs, validation.rs timing units)',
                         'rowan GreenNodeBuilder modelled as a rose-tree builder; oq3_lexer::unescape not modelled (its diagnostics are ignored in the comparison)',
                         'hook: parser stuck detector (verif_tick) turns a hang of the implementation into a panic'],
        'assumptions': ['inputs shorter than 2^32 bytes; nesting depth within the process stack (measured: > 5000 levels on 8 MiB); the parser step limit (15e6 look-aheads without progress) is not modelled'],
        'partial': ['that the validation pass (validation.rs: three unwraps and one unreachable on LITERAL / TIMING_LITERAL nodes of the finished tree, modelled as panic codes 20-23; the unescaper is not modelled) never panics is not proved; only exercised by the bounded-exhaustive correspondence and the implementation oracle'],
    },
    'C02': {
        'coq': 'Props/C02.v',
        'families': [
            {'name': 'tree',
             'args': {'quick': ['--corpus', 1, '--joints', 1, '--mutants', 2500, '--lexemes', 1500, '--templates', 4000, '--random', 2500, '--unknown', 1500],
                      'thorough': ['--corpus', 1, '--joints', 1, '--mutants', 60000, '--lexemes', 30000, '--templates', 100000, '--random', 60000, '--unknown', 60000]},
             'shards': {'quick': 16, 'thorough': 16}, 'driver_args': []},
            {'name': 'pk',
             'args': {'quick': ['--exhaustive', 2, '--long', 200, '--random', 20000], 'thorough': ['--exhaustive', 3, '--long', 5000, '--random', 300000]},
             'shards': {'quick': 16, 'thorough': 16}, 'driver_args': ['--nodedupe']},
        ],
        'exhaustive': {'quick': False, 'thorough': False},
        'rule': 'text level (both entry points): corpus snippets, token-level mutants, lexeme sequences, statement templates, fragment soups; '
                'the model tree is compared node by node (kind, token lengths) and the implementation is asked directly for text()==input, '
                'tiling of every node by its children and root range; token level: consumed tokens = input tokens, balanced steps',
        'trusted_base': ['as C01; rowan ranges are derived from leaf lengths (the model tree stores no ranges)'],
        'assumptions': ['as C01'],
        'partial': ['node ranges are not part of the model tree (a range is the span of the leaves below a node); rowan\'s range arithmetic is trusted'],
    },
    'C11': {
        'coq': 'Props/C11.v',
        'families': [
            {'name': 'lex',
             'args': {'quick': ['--malformed', 4000, '--lexemes', 500, '--exhaustive', 4, '--adjacent', 30000], 'thorough': ['--malformed', 200000, '--lexemes', 20000, '--exhaustive', 5, '--adjacent', 30000]},
             'shards': {'quick': 16, 'thorough': 16}, 'driver_args': []},
            {'name': 'tree',
             'args': {'quick': ['--corpus', 1, '--mutants', 1000, '--templates', 1500, '--random', 2500],
                      'thorough': ['--corpus', 1, '--mutants', 30000, '--templates', 50000, '--random', 80000]},
             'shards': {'quick': 16, 'thorough': 16}, 'driver_args': []},
            {'name': 'nopanic', 'args': {'quick': ['--templates', 1, '--programs', 1000, '--mutants', 30000], 'thorough': ['--templates', 1, '--programs', 20000, '--mutants', 600000]},
             'shards': {'quick': 16, 'thorough': 16}, 'driver_args': ['--nodedupe'], 'max_skip': 0.97},
            {'name': 'inc', 'args': {'quick': ['--random', 1600], 'thorough': ['--random', 60000]},
             'shards': {'quick': 16, 'thorough': 16}, 'driver_args': []},
        ],
        'exhaustive': {'quick': False, 'thorough': False},
        'rule': 'generated well-formed lexeme sequences with one malformed lexeme (21 kinds: unterminated strings/bit strings/block comments, '
                'empty base prefixes, empty exponents, bad version headers, emoji and # identifiers) spliced at a random position; the oracle '
                'requires a lexical diagnostic on the token containing the lexeme; text-level family checks parse_check_lex has a tree iff '
                'no lexical diagnostic and that both entry points agree on clean input',
        'trusted_base': ['as C14; Model/Builder.v parse_check_lex'],
        'assumptions': ['gating of semantic analysis: oracle only (nopanic family on inputs with syntax diagnostics; inc family with a broken included file at any depth)'],
        'partial': ['class lemmas proved for 3 of 6 malformed classes; the others by correspondence/oracle only'],
    },
    'C15': {
        'coq': 'Props/C15.v',
        'families': [
            {'name': 'lex',
             'args': {'quick': ['--lexemes', 6000, '--exhaustive', 4], 'thorough': ['--lexemes', 300000, '--exhaustive', 5]},
             'shards': {'quick': 16, 'thorough': 16}, 'driver_args': []},
        ],
        'exhaustive': {'quick': False, 'thorough': False},
        'rule': 'random sequences of 1..8 well-formed lexemes (identifiers incl. Unicode and p/O-initial, 43 keywords, 9 type names, hardware '
                'qubits, integers in 4 radices with underscores, 6 float shapes, number+unit with/without blank, bit strings and strings in '
                'both quotes, 27 punctuation characters, comments, pragma/annotation lines, version headers), each laid out twice with '
                'different separators obeying the side conditions; oracle: non-trivia kinds/texts equal the expected ones, no lexical error, '
                'both layouts give the same non-trivia tokens',
        'trusted_base': ['as C14; the lexeme generators and their expected kinds (harness fam_lex.rs)'],
        'assumptions': [],
        'partial': ['munch lemmas proved for identifiers, whitespace, line comments, 22 punctuation characters; other classes by correspondence/oracle only'],
    },
    'C12': {
        'coq': 'Props/C12.v',
        'families': [
            {'name': 'tree',
             'args': {'quick': ['--corpus', 1, '--mutants', 2500, '--lexemes', 1500, '--templates', 3000, '--random', 3000, '--escapes', 4000, '--unknown', 4000],
                      'thorough': ['--corpus', 1, '--mutants', 60000, '--lexemes', 30000, '--templates', 100000, '--random', 80000, '--escapes', 100000, '--unknown', 100000]},
             'shards': {'quick': 16, 'thorough': 16}, 'driver_args': []},
            {'name': 'meta', 'args': {'quick': ['--random', 2000, '--semranges', 6000], 'thorough': ['--random', 100000, '--semranges', 300000]},
             'shards': {'quick': 16, 'thorough': 16}, 'driver_args': ['--nodedupe']},
            {'name': 'inc', 'args': {'quick': ['--random', 1600], 'thorough': ['--random', 60000]},
             'shards': {'quick': 16, 'thorough': 16}, 'driver_args': []},
        ],
        'exhaustive': {'quick': False, 'thorough': False},
        'rule': 'text-level pipeline on corpus snippets, token mutants, lexeme sequences (incl. non-ASCII identifiers and strings), templates '
                'and fragment soups; the model/implementation comparison includes every parser diagnostic offset, lexical diagnostic range and '
                'timing-literal validation range; the oracle slices the text by every reported range (bounds, char boundaries) and requires a '
                'diagnostic whenever the tree has an ERROR node or token',
        'trusted_base': ['as C01/C02'],
        'assumptions': ['semantic diagnostic spans: oracle only (meta --semranges and the generated programs of meta; inc for diagnostics of included files: range = node range of the file that holds them)'],
        'partial': ['error-node => diagnostic and semantic spans: oracle only; escape validation offsets come from the unmodelled unescape module'],
    },
    'C08': {
        'coq': 'Props/C08.v',
        'families': [
            {'name': 'semt', 'args': {'quick': [], 'thorough': []}, 'shards': {'quick': 16, 'thorough': 16}, 'driver_args': []},
            {'name': 'types', 'args': {'quick': [], 'thorough': ['--triples', 100000]}, 'driver_args': []},
            {'name': 'lit', 'args': {'quick': ['--ints', 100, '--bits', 30], 'thorough': ['--ints', 5000, '--bits', 500]}, 'driver_args': []},
        ],
        'exhaustive': {'quick': True, 'thorough': True},
        'rule': 'every target type (9 base types x widths {none,8,32,64} where allowed x const/non-const = 46 targets) x every value form '
                '(11 literals incl. negative, imaginary, timing, bit string; a variable and a const variable of every type; 27 arithmetic '
                'expressions over 9 operand type pairs x {+,*,/}; 7 casts; 2 measurements; 5 subroutine calls) x {declaration, assignment}; '
                'the value type is read off a probe expression statement; enumerated completely (6400+ programs); plus the types family',
        'trusted_base': ['Model/TypeRules.v (hand-written mirror of the decision logic), Model/Types.v; Debug formatting of the ASG as the observation channel'],
        'assumptions': ['types of identifiers/literals/casts/measurements/calls are observed from the implementation, not modelled (lit_typed hypothesis checked by the driver)'],
        'partial': ['expression typing rules for identifiers, casts, measurements and calls are checked on the implementation only'],
    },
    'C09': {
        'coq': 'Props/C09.v',
        'families': [
            {'name': 'semw', 'args': {'quick': ['--random', 40], 'thorough': ['--random', 2000]}, 'driver_args': []},
        ],
        'exhaustive': {'quick': False, 'thorough': False},
        'rule': 'every declaration form: 7 width-taking kinds (int, uint, float, angle, complex, bit register, qubit register) and 3 others x '
                'const/non-const x 3 scope depths x designator {absent, integer literal, const identifier} x widths {1,2,7,8,64,128,255,2^16-1,'
                '2^16,2^31-1,2^31,2^32-1,2^32,2^32+1,2^33,2^33+5,2^64,2^128-1,0} + random widths over 1..34 bits, spelled in 4 radices '
                'and with underscores, plus non-integer literal, const of non-integer value and non-const identifier designators',
        'trusted_base': ['Model/Declared.v (hand-written mirror of designator_to_asg, scalar_type_to_type)'],
        'assumptions': ['designators that are general expressions or undefined names make the analyser panic: listed under C03'],
        'partial': ['gate arity, subroutine signature and the gate listing are checked on the implementation only (C13 family)'],
    },
    'C10': {
        'coq': 'Props/C10.v',
        'families': [
            {'name': 'lit', 'args': {'quick': ['--ints', 600, '--bits', 80], 'thorough': ['--ints', 60000, '--bits', 5000]}, 'driver_args': []},
        ],
        'exhaustive': {'quick': False, 'thorough': False},
        'rule': 'integers of every bit length 1..128 plus boundaries (2^32, 2^64, 2^127, 2^128-1, small) x radix {2,8,10,16} x prefix case x '
                'digit case x random underscore placement, each also negated; values >= 2^128 and digits outside the radix (AST accessor only); '
                '18 float shapes incl. subnormals, halfway cases and underscores, each also negated, compared as IEEE bits; bit strings of '
                '1..256 bits in both quotes with underscores; 6 numbers x 7 units x with/without blank; booleans',
        'trusted_base': ['Model/Literals.v (hand-written mirror of token_ext.rs IntNumber and QuoteOffsets, with u128::from_str_radix modelled)',
                         'Rust str::parse::<f64> and Display for f64 are oracles (correctly rounded / shortest round-trip)'],
        'assumptions': ['integer literals >= 2^128 or with digits outside the radix make the analyser panic: listed under C03'],
        'partial': ['floats, timing, imaginary, boolean literals and negation folding: implementation oracle only'],
    },
    'C13': {
        'coq': 'Props/C13.v',
        'families': [
            {'name': 'use', 'args': {'quick': ['--random', 6000], 'thorough': ['--random', 400000]},
             'shards': {'quick': 16, 'thorough': 16}, 'driver_args': []},
        ],
        'exhaustive': {'quick': False, 'thorough': False},
        'rule': 'programs of 1-9 usage sites in 1-3 scope contexts (global, if/else/while/for/case/default blocks, gate and def bodies, '
                'nested) over all 33 built-in/standard gates and user gates with 0-4 parameters / 1-4 qubits: gate calls (plain, inv, pow) '
                'with each arity independently right or wrong, callee a gate/def/classical/qubit/undeclared name, operands of 11 forms '
                '(qubit, register, indexed, hardware, classical, const, undeclared, gate, def, indexed scalar), measure/reset/barrier '
                'operands, binary operators with quantum operands, def calls with 0-4 arguments, assignment to '
                'const/non-const/undeclared/quantum/gate targets, qubit/gate/def declarations and return in every scope kind, delay with '
                'duration and non-duration designators; the whole ordered list of usage diagnostics is compared; non-trivial = more than '
                'one site or at least one diagnostic',
        'trusted_base': ['Model/Usage.v (hand-written mirror of the usage checks)',
                         'the harness maps each generated site to its descriptor (what the names of the fixed preamble are bound to)'],
        'assumptions': ['ctrl/negctrl-modified calls are outside the rule (the property states it for unmodified and inv/pow-modified calls)'],
        'partial': ['symbol lookup and scope tracking are inputs of the model (they are C07/C19); tied by correspondence only'],
    },
    'C07': {
        'coq': 'Props/C07.v',
        'families': [
            {'name': 'scope', 'args': {'quick': ['--random', 6000], 'thorough': ['--random', 400000]},
             'shards': {'quick': 16, 'thorough': 16}, 'driver_args': []},
        ],
        'exhaustive': {'quick': False, 'thorough': False},
        'rule': 'programs of 2-11 top-level statements nested to depth 1-5 over the name pool {a, b, pi, U, h, x} (user names, a built-in '
                'constant, the built-in gate, two standard gate names) plus fresh gate/def names: declarations (int, float, const, qubit, with '
                'initializer expressions), assignments (plain and indexed), expression statements, gate calls with parameters and (indexed) '
                'operands, measure/reset/barrier, if/else, while, for over ranges and sets (loop variable from the pool), switch with cases '
                'and default, gate and def definitions with parameters from the pool, def calls, include "stdgates.inc" at a random '
                'position; every symbol reference of the graph (in analysis order) and the ordered list of '
                'UndefVar/UndefGate/Redeclaration diagnostics are compared with the model; non-trivial = more than 3 declarations/uses',
        'trusted_base': ['Model/Scoping.v, Model/SymTab.v (hand-written)',
                         'the harness generator states, per construct, the order in which the analyser declares and looks up names (its '
                         'items list); the reader of the graph (Debug rendering) knows the field order of each node'],
        'assumptions': ['the for-loop variable and the loop body share one scope, and a gate/def body shares the scope of its parameters (as implemented)'],
        'partial': ['statement -> operations mapping and storage of results in the graph: correspondence only'],
    },
    'C05': {
        'coq': 'Props/C05.v',
        'families': [
            {'name': 'shape', 'args': {'quick': ['--exprs', 12000, '--stmts', 12000], 'thorough': ['--exprs', 600000, '--stmts', 600000]},
             'shards': {'quick': 16, 'thorough': 16}, 'driver_args': []},
        ],
        'exhaustive': {'quick': False, 'thorough': False},
        'rule': 'expressions: random trees to depth 6 over all 19 binary and 3 unary operators, index, call (1-2 arguments), cast, one-letter '
                'identifiers and digits, printed with exactly the parentheses the OpenQASM 3 table requires (one third also with redundant '
                'parentheses), as expression statement or declaration initializer; statements: 15 kinds (if with all block/single-statement '
                'body combinations and optional else, while, for over range/stepped range/set/expression, gate and def definitions with 0-3 '
                'parameters, declarations, gate calls with 0-3 modifiers/parameters and 1-4 operands, plain and indexed assignment, switch '
                'with 1-3 cases and optional default, delay, barrier, io declarations, reset, measure assignment, qubit declarations) with '
                'random constituent expressions; non-trivial = an operator or a statement',
        'trusted_base': ['Model/Shape.v: the operator table and printer are the specification; abstraction of trees to shapes',
                         'models of lexer, parser, tree builder (as for C01/C02)',
                         'harness readers of the typed AST (oq3_syntax::ast accessors) and the reference roles of each statement template'],
        'assumptions': ['identifiers and integers are single characters in the model expressions'],
        'partial': ['unbounded-depth expressions and statement roles: correspondence / implementation oracle only'],
    },
    'C06': {
        'coq': 'Props/C06.v',
        'families': [
            {'name': 'graph', 'args': {'quick': ['--random', 8000], 'thorough': ['--random', 400000]},
             'shards': {'quick': 16, 'thorough': 16}, 'driver_args': []},
            # "includes expanded in place": the graph of a program with includes equals the graph of the inlined program
            {'name': 'inc', 'args': {'quick': ['--random', 1600], 'thorough': ['--random', 60000]},
             'shards': {'quick': 16, 'thorough': 16}, 'driver_args': []},
        ],
        'exhaustive': {'quick': False, 'thorough': False},
        'rule': 'generated model programs of 2-11 top-level statements nested to depth 0-5: declarations (int/uint/float/bool, const, '
                'with initializer expressions), qubits and registers, io declarations, assignments, gate calls with 0-2 modifiers of all '
                'four kinds on built-in, standard and user gates, gphase, reset, barrier, delay, measure, if/else, while, for over '
                'range/stepped range/set, switch with cases and default (block and single-statement bodies in every combination), '
                'break/continue/end, gate and def definitions, def calls, casts, pragmas, annotations (also inside blocks), '
                'include "stdgates.inc", printed in plain or rich layout with optional redundant parentheses; the whole graph is '
                'compared node by node with the model translation of the program skeleton; non-trivial = at least two statements',
        'trusted_base': ['Model/Graph.v (hand-written model of the statement arrangement)',
                         'harness: reference translation of leaf statements and expressions (fam_graph.rs ref_stmt/ref_expr) and the reader of the Debug rendering of the graph'],
        'assumptions': ['implicit and explicit casts are dropped on both sides (cast insertion is C08)',
                        'operators outside the set the analyser supports (comparisons other than ==/!=, logical operators) are left to C03'],
        'partial': ['leaf statements, expressions and the operator/literal mapping: implementation oracle against the reference translation'],
    },
    'C04': {
        'coq': 'Props/C04.v',
        'families': [
            {'name': 'accept', 'args': {'quick': ['--templates', 1, '--programs', 20000], 'thorough': ['--templates', 1, '--programs', 1000000]},
             'shards': {'quick': 16, 'thorough': 16}, 'driver_args': ['--nodedupe']},
            {'name': 'tree', 'args': {'quick': ['--programs', 6000, '--joints', 1], 'thorough': ['--programs', 30000, '--joints', 1]},
             'shards': {'quick': 16, 'thorough': 16}, 'driver_args': []},
        ],
        'exhaustive': {'quick': True, 'thorough': True},
        'rule': 'exhaustive: each of the 146 statement templates (one per statement form of the reference grammar) in each of the 10 '
                'statement contexts; random: generated model programs of 2-11 top-level statements nested to depth 0-5 over the full '
                'operator set, printed with minimal or redundant parentheses in three layouts (single blanks, rich trivia with comments '
                'and line breaks, minimal spacing), block and single-statement bodies; the tree family compares the model tree with the '
                'implementation tree on such programs; non-trivial = every case',
        'trusted_base': ['pipeline models (as C01/C02); tools/templates.txt and harness/src/gen.rs are the reference grammar',
                         'generated coq/gen/Templates.v (tools/gen_tables.py, regenerated from tools/templates.txt every run)'],
        'assumptions': ['the reference grammar avoids the listed known findings (assignment of a binary expression is written with parentheses; ...)'],
        'partial': ['programs beyond the templates: implementation oracle and tree correspondence only'],
    },
    'C16': {
        'coq': 'Props/C16.v',
        'families': [
            {'name': 'accept', 'args': {'quick': ['--templates', 1, '--sequences', 20000], 'thorough': ['--templates', 1, '--sequences', 1000000]},
             'shards': {'quick': 16, 'thorough': 16}, 'driver_args': ['--nodedupe']},
        ],
        'exhaustive': {'quick': True, 'thorough': True},
        'rule': 'exhaustive: every ordered pair of the 146 statement templates, concatenated at top level and inside a block body (21316 pairs, '
                'compared with the model pair by pair); random: sequences of 2-5 generated statements (all statement kinds, nested to depth '
                '2) each parsed alone and then concatenated, at top level and inside a block; non-trivial = every case',
        'trusted_base': ['pipeline models (as C01/C02); tools/templates.txt'],
        'assumptions': ['statements are separated by a blank (templates) or a line break (generated sequences)'],
        'partial': ['sequences longer than two and statements beyond the templates: implementation oracle only'],
    },
    'C03': {
        'coq': 'Props/C03.v',
        'families': [
            {'name': 'nopanic', 'args': {'quick': ['--templates', 1, '--programs', 8000, '--mutants', 60000],
                                         'thorough': ['--templates', 1, '--programs', 300000, '--mutants', 3000000]},
             'shards': {'quick': 16, 'thorough': 16}, 'driver_args': ['--nodedupe'], 'max_skip': 0.97},
            {'name': 'scope', 'args': {'quick': ['--random', 4000], 'thorough': ['--random', 200000]},
             'shards': {'quick': 16, 'thorough': 16}, 'driver_args': []},
            {'name': 'use', 'args': {'quick': ['--random', 4000], 'thorough': ['--random', 200000]},
             'shards': {'quick': 16, 'thorough': 16}, 'driver_args': []},
            {'name': 'graph', 'args': {'quick': ['--random', 4000], 'thorough': ['--random', 200000]},
             'shards': {'quick': 16, 'thorough': 16}, 'driver_args': []},
            {'name': 'inc', 'args': {'quick': ['--random', 1600], 'thorough': ['--random', 60000]},
             'shards': {'quick': 16, 'thorough': 16}, 'driver_args': []},
        ],
        'exhaustive': {'quick': False, 'thorough': False},
        'rule': 'inputs without syntax diagnostics from: the 146 statement templates in 10 contexts with undeclared names and with a '
                'prelude declaring them; the repository snippets; generated programs of the supported subset and of the wider grammar '
                '(all operators, aliases, casts), each also with injected faults (top-level statements deleted, duplicated, swapped: '
                'undeclared and duplicate names, wrong scope); token-level mutants of the snippets (1-2 tokens deleted, swapped, '
                'duplicated or replaced); plus the scoped programs (colliding names, duplicates, undeclared), usage-rule programs '
                '(wrong arity, wrong operand kinds, wrong scope) and structural programs of C07/C13/C06; oracle: no panic, exactly the '
                'global scope open afterwards; non-trivial = input without syntax diagnostics',
        'trusted_base': ['Model/Scoping.v + Model/SymTab.v for the scope-balance theorem; everything else is an oracle on the implementation',
                         'hook verif_scope_depth; panic sites are named by the innermost repository function on the backtrace'],
        'assumptions': ['memory exhaustion and non-termination of the analyser are not modelled: a case that does not return fails the run by timeout'],
        'partial': ['only the symbol-table side (no symbol-table panic, scopes balanced) is a theorem; absence of panics in the translation '
                    'functions is tested, with the listed known panic classes'],
    },
    'C17': {
        'coq': 'Props/C17.v',
        'families': [
            {'name': 'meta', 'args': {'quick': ['--random', 6000], 'thorough': ['--random', 300000]},
             'shards': {'quick': 16, 'thorough': 16}, 'driver_args': ['--nodedupe']},
            {'name': 'lex', 'args': {'quick': ['--lexemes', 1500], 'thorough': ['--lexemes', 50000]},
             'shards': {'quick': 16, 'thorough': 16}, 'driver_args': []},
            {'name': 'symtab', 'args': {'quick': ['--exhaustive', 5, '--random', 400], 'thorough': ['--exhaustive', 7, '--random', 20000]},
             'shards': {'quick': 16, 'thorough': 16}, 'driver_args': ['--nodedupe']},
        ],
        'exhaustive': {'quick': False, 'thorough': False},
        'rule': 'generated programs of 2-10 top-level statements nested to depth 0-3, half of them with injected faults (statements deleted, '
                'duplicated, swapped): each x 2 re-layouts (rich trivia with comments and line breaks; minimal spacing) x 1 injective '
                'renaming of all user identifiers (three naming schemes, avoiding keywords, built-ins, standard gate names, time units) x '
                'every prefix at a top-level statement boundary x a second run of the same text; compared: graph (Debug rendering), '
                'symbol table (names and types, in id order), diagnostic kinds in order (for prefixes also positions); the lex and '
                'symtab families tie the two models the theorems are about; non-trivial = every relation checked',
        'trusted_base': ['Model/Lexed.v (to_input), Model/SymTab.v, Model/Graph.v', 'harness renaming through the implementation lexer (LexedStr)'],
        'assumptions': ['identifier tokens inside pragma and annotation lines are not renamed (they are one token)'],
        'partial': ['whole-analyser invariance: implementation oracle only'],
    },
    'C18': {
        'coq': 'Props/C18.v',
        'families': [
            {'name': 'inc', 'args': {'quick': ['--random', 1600], 'thorough': ['--random', 60000]},
             'shards': {'quick': 16, 'thorough': 16}, 'driver_args': []},
            {'name': 'nopanic', 'args': {'quick': ['--templates', 1, '--mutants', 20000], 'thorough': ['--templates', 1, '--mutants', 500000]},
             'shards': {'quick': 16, 'thorough': 16}, 'driver_args': ['--nodedupe'], 'max_skip': 0.97},
        ],
        'exhaustive': {'quick': False, 'thorough': False},
        'rule': 'file systems of 1-3 directories and 1-4 include files, each present in none, one or several directories with distinct '
                'content, nested up to depth 3 (a file includes only higher-numbered files, each file has at most one includer), included '
                'by relative or absolute path; analysed with a search list (random order and subset of the directories), with QASM3_PATH, '
                'with both (the environment must be ignored) or with neither; observed: which files were included in which order '
                '(markers in the symbol table), which includes were unreadable (by the path written), the path tag of diagnostics raised '
                'inside included files, equality of graph / symbols / diagnostic kinds with the program in which the chosen files are '
                'written at the include sites; includes below global scope and a missing file; non-trivial = a main program with includes',
        'trusted_base': ['Model/Include.v (hand-written)', 'the real file system under /verif/build/tmp; std::env::set_var in the single-threaded harness'],
        'assumptions': ['no include cycles (the implementation has no cycle protection; a cycle overflows the stack)'],
        'partial': ['file-system primitives and the analysis of included text: implementation oracle and correspondence only'],
    },
}
