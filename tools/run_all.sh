#!/bin/bash
# run every property's check at the given tier, one after the other; summary on stdout
tier=${1:-quick}
cd "$(dirname "$0")/.."
for p in C01 C02 C03 C04 C05 C06 C07 C08 C09 C10 C11 C12 C13 C14 C15 C16 C17 C18 C19 C20; do
  s=$(date +%s)
  out=$(./check $p --tier $tier 2>&1)
  rc=$?
  e=$(date +%s)
  echo "$p rc=$rc $((e-s))s $(echo "$out" | grep -c '^VIOLATION') violations $(echo "$out" | grep -c '^KNOWN-FINDING') known"
  echo "$out" | grep '^VIOLATION\|\[run\]' | cut -c1-200 | sed 's/^/    /'
done
