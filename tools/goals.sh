#!/bin/bash
# usage: goals.sh <file.v> <line>   -- shows the goals after executing the first <line> lines
f=$1; n=$2
cd /verif/coq
( head -n "$n" "$f"; echo; echo "Show." ) | timeout 300 coqtop -Q . OQ3 -quiet 2>&1 | tail -${3:-40}
