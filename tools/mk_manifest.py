#!/usr/bin/env python3
"""Writes MANIFEST.json from the claims table below (kept in one place so it stays valid)."""
import json, os, subprocess
ROOT = os.path.dirname(os.path.dirname(os.path.abspath(__file__)))
props = [json.loads(l) for l in open(os.path.join(ROOT, 'properties.jsonl'))]
NOTE = ("Trusted: Coq 8.16.1 kernel (vm_compute, no native_compute), no axioms (Print Assumptions: closed under the global context), "
        "extraction via ExtrOcamlBasic only, hand-written OCaml driver and Rust harness; the Gallina model is hand-written and tied to /repo "
        "only by the differential correspondence run on every check; table-like code (kinds, keyword tables) is regenerated from /repo on every run.")
claimed = {
    'C14': dict(text="Proof (Coq): for every character list (any Unicode classification), every token is non-empty, token texts concatenate to the input, lengths sum to the input length, a literal's suffix offset is at most its length, the token loop terminates within one fuel unit per character, and the parser-facing offsets strictly increase to the input length on whole-character boundaries. Tied to oq3_lexer and LexedStr by an exhaustive differential run over all strings of length <=5/6 over the 14-character critical alphabet plus random fragment soups and generated lexeme sequences; the same facts are asserted directly on the implementation's output.", ref="§6 C14", tech="Coq proof (structural/length induction over the lexer model) + bounded-exhaustive model/implementation correspondence"),
    'C19': dict(text="Proof (Coq): the model of SymbolTable refines a stack-of-maps specification for every history of any length (induction, no bound); ids stable, exit pops exactly the innermost scope, built-ins present. Tied to symbols.rs by a bounded-exhaustive differential run (all 9-operation histories to length 6/8) plus random long histories, with an independent stack-of-maps oracle on the implementation's responses.", ref="§6 C19", tech="Coq refinement proof (induction over histories) + bounded-exhaustive model/implementation correspondence"),
    'C20': dict(text="Proof (Coq): all promotion / castability laws for every width, const flag and array shape (case analysis + lia), outside four listed known-finding classes which have refutation witnesses. Tied to types.rs by an exhaustive differential run over the finite abstraction (all ordered pairs, triples) and the extracted law oracle applied to the implementation's results.", ref="§6 C20", tech="Coq proof of the join laws over all widths + exhaustive model/implementation correspondence on the finite abstraction"),
}
import importlib.util
spec = importlib.util.spec_from_file_location('claims', os.path.join(ROOT, 'tools', 'claims.py'))
if os.path.exists(os.path.join(ROOT, 'tools', 'claims.py')):
    mod = importlib.util.module_from_spec(spec); spec.loader.exec_module(mod)
    claimed.update(mod.CLAIMS)
checks = []
for pid in sorted(claimed):
    c = claimed[pid]
    checks.append({
        "property_id": pid,
        "quick_cmd": f"./check {pid} --tier quick",
        "thorough_cmd": f"./check {pid} --tier thorough",
        "evidence_file": f"evidence/{pid}.json",
        "replay_cmd_template": f"./check {pid} --replay {{path}}",
        "engine": "coq-proof+correspondence",
        "level_claimed": {"category": "proof", "text": c['text'], "design_ref": c['ref']},
        "level_note": NOTE + (' ' + c['note'] if 'note' in c else ''),
        "technique": c['tech'],
    })
na = [{"property_id": p['id'], "reason": "not yet built in this revision (machinery under construction; see DESIGN.md §9 staging)"}
      for p in props if p['id'] not in claimed]
commits = subprocess.run(['git', '-C', '/repo', 'log', '--format=%h %s'], capture_output=True, text=True).stdout.splitlines()
hooks = [l.split()[0] for l in commits if 'verif hook' in l]
m = {
    "version": 1,
    "setup_cmd": "./setup.sh",
    "hooks": {"guard": "oq3_verif",
              "enable": "RUSTFLAGS=\"--cfg oq3_verif\" (set in /verif/harness/.cargo/config.toml); the harness crate path-depends on /repo/crates/*",
              "baseline_off_cmd": "cd /repo && cargo test --workspace --no-fail-fast --offline",
              "source_commits": hooks, "add_only": True},
    "engines": [{"name": "coq-proof+correspondence", "path": "tools/check.py", "serves_properties": sorted(claimed),
                 "kind_free_text": "Coq 8.16 theorems about hand-written executable Gallina models; models extracted to OCaml and compared with the Rust implementation (harness) on generated inputs; property oracles (extracted from Coq or written in the harness) applied to the implementation's observed results"}],
    "checks": checks,
    "not_applicable": na,
    "notes": "See DESIGN.md. Known findings: known_findings.jsonl.",
}
json.dump(m, open(os.path.join(ROOT, 'MANIFEST.json'), 'w'), indent=1)
print('MANIFEST: claimed', sorted(claimed))
