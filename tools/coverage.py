#!/usr/bin/env python3
"""Development helper (not a registered check): which lines of /repo's crates does no harness family reach?

Builds the harness with source-based coverage instrumentation (nightly toolchain: it ships llvm-profdata and
llvm-cov) in a scratch directory under /tmp, runs every family of every property once with its quick
arguments (harness output discarded: only the implementation side matters here), and prints per file the
uncovered source regions.  A line that no family executes cannot be guarded by any correspondence or oracle;
this is how blind spots of the generators are found."""
import os, subprocess, sys, glob, json, shutil
sys.path.insert(0, os.path.dirname(__file__))
import registry
ROOT = os.path.dirname(os.path.dirname(os.path.abspath(__file__)))
SCR = '/tmp/cov'
TC = os.path.expanduser('~/.rustup/toolchains/nightly-x86_64-unknown-linux-gnu')
BIN = TC + '/lib/rustlib/x86_64-unknown-linux-gnu/bin'
env = dict(os.environ, CARGO_NET_OFFLINE='true', RUSTFLAGS='--cfg oq3_verif -C instrument-coverage',
           CARGO_TARGET_DIR=SCR + '/target', RUSTUP_TOOLCHAIN='nightly-x86_64-unknown-linux-gnu')
os.makedirs(SCR, exist_ok=True)
hd = os.path.join(ROOT, 'harness')
shutil.copyfile('/repo/Cargo.lock', os.path.join(hd, 'Cargo.lock'))
subprocess.check_call(['cargo', 'build', '--release', '--offline'], cwd=hd, env=dict(env, LLVM_PROFILE_FILE=SCR + '/build-%p.profraw'))
exe = SCR + '/target/release/oq3h'
for f in glob.glob(SCR + '/*.profraw'):
    os.remove(f)
seen = set()
procs = []
for pid, P in registry.PROPS.items():
    for fam in P['families']:
        key = (fam['name'], tuple(map(str, fam['args']['quick'])))
        if key in seen:
            continue
        seen.add(key)
        nsh = 16
        for i in range(nsh):
            cmd = [exe, fam['name']] + list(key[1]) + ['--seed', '1', '--shard', str(i), '--nshards', str(nsh)]
            e = dict(env, LLVM_PROFILE_FILE=f'{SCR}/{fam["name"]}-{len(seen)}-{i}.profraw')
            procs.append(subprocess.Popen(cmd, stdout=subprocess.DEVNULL, stderr=subprocess.DEVNULL, env=e))
            if len(procs) >= 16:
                for p in procs:
                    p.wait()
                procs = []
for p in procs:
    p.wait()
for f in glob.glob(SCR + '/build-*.profraw'):
    os.remove(f)
raws = glob.glob(SCR + '/*.profraw')
subprocess.check_call([BIN + '/llvm-profdata', 'merge', '-sparse', '-o', SCR + '/all.profdata'] + raws)
for f in raws:
    os.remove(f)
out = subprocess.check_output([BIN + '/llvm-cov', 'export', '-format=lcov', '-instr-profile', SCR + '/all.profdata', exe,
                               '-ignore-filename-regex', '(registry|rustc|harness)/'], text=True)
rep = {}
cur = None
for line in out.splitlines():
    if line.startswith('SF:'):
        cur = line[3:]
        rep[cur] = [0, 0, []]
    elif line.startswith('DA:') and cur:
        ln, cnt = line[3:].split(',')[:2]
        rep[cur][1] += 1
        if int(cnt) > 0:
            rep[cur][0] += 1
        else:
            rep[cur][2].append(int(ln))
with open(SCR + '/report.txt', 'w') as w:
    for fn in sorted(rep):
        if '/repo/crates/' not in fn:
            continue
        c, n, unc = rep[fn]
        w.write(f'{fn}\t{c}/{n}\n')
        runs = []
        for ln in unc:
            if runs and runs[-1][1] == ln - 1:
                runs[-1][1] = ln
            else:
                runs.append([ln, ln])
        w.write('   uncovered: ' + ' '.join(f'{a}-{b}' if a != b else str(a) for a, b in runs) + '\n')
print(open(SCR + '/report.txt').read())
