#!/usr/bin/env python3
"""Entry point of the verification machinery:  ./check <Cxx> [--tier quick|thorough] [--replay f]

For the property it (1) rebuilds the Rust harness against /repo's working tree (--cfg oq3_verif),
(2) rebuilds the Coq development and re-checks the property's theorems (audit of axioms and
forbidden tokens), (3) re-extracts the models and rebuilds the OCaml correspondence driver,
(4) streams the property's case families  harness | driver  (model vs implementation + the
property oracle applied to the implementation's observed results), (5) decides and writes
evidence/<id>.json.  Exit 0 = held on everything explored, exit 1 = VIOLATION line printed.
"""
import sys, os, json, subprocess, time, hashlib, fcntl, re, shutil, glob

ROOT = os.path.dirname(os.path.dirname(os.path.abspath(__file__)))
BUILD = os.path.join(ROOT, 'build')
COQ = os.path.join(ROOT, 'coq')
EXTRACT = os.path.join(BUILD, 'extract')
TARGET = os.path.join(BUILD, 'target')
HARNESS = os.path.join(TARGET, 'release', 'oq3h')
DRIVER = os.path.join(EXTRACT, 'driver')
NPROC = int(os.environ.get('VERIF_JOBS', '16'))
ENV = dict(os.environ, CARGO_NET_OFFLINE='true', CARGO_TARGET_DIR=TARGET)

sys.path.insert(0, os.path.dirname(os.path.abspath(__file__)))
from registry import PROPS  # noqa: E402

AXIOM_ALLOW = set()  # names of standard-library axioms any theorem may depend on (none needed so far)
FORBIDDEN = re.compile(r'\b(Admitted|admit|Axiom|Parameter|Conjecture|Admit Obligations|Unset Guard Checking|'
                       r'bypass_check|Unset Positivity Checking|Unset Universe Checking|type-in-type|impredicative-set)\b')


def log(*a):
    print(*a, file=sys.stderr, flush=True)


def run(cmd, cwd=None, timeout=None, env=None, input=None):
    return subprocess.run(cmd, cwd=cwd, timeout=timeout, env=env or ENV, input=input,
                          stdout=subprocess.PIPE, stderr=subprocess.STDOUT, text=True)


class Lock:
    def __enter__(self):
        os.makedirs(BUILD, exist_ok=True)
        self.f = open(os.path.join(BUILD, '.lock'), 'w')
        fcntl.flock(self.f, fcntl.LOCK_EX)
        return self

    def __exit__(self, *a):
        fcntl.flock(self.f, fcntl.LOCK_UN)
        self.f.close()


# ---------------------------------------------------------------- builds
def build_harness():
    """Rebuild the harness from /repo's current working tree, hooks enabled."""
    hd = os.path.join(ROOT, 'harness')
    shutil.copyfile('/repo/Cargo.lock', os.path.join(hd, 'Cargo.lock'))
    t0 = time.time()
    r = run(['cargo', 'build', '--release', '--offline'], cwd=hd, timeout=1800)
    if r.returncode != 0:
        return False, r.stdout[-4000:]
    log(f'[build] harness ok ({time.time()-t0:.1f}s)')
    return True, ''


def coq_makefile():
    mk = os.path.join(COQ, 'Makefile')
    cp = os.path.join(COQ, '_CoqProject')
    if not os.path.exists(mk) or os.path.getmtime(mk) < os.path.getmtime(cp):
        run(['coq_makefile', '-f', '_CoqProject', '-o', 'Makefile'], cwd=COQ)


def gen_tables():
    """Regenerate coq/gen/*.v from /repo's current sources (fails loudly on unknown syntax)."""
    r = run([sys.executable, os.path.join(ROOT, 'tools', 'gen_tables.py')], timeout=120)
    new = os.path.join(COQ, 'gen', 'Kinds.v')
    return r.returncode == 0, r.stdout


def build_coq(prop_file):
    """(Re)compile the development up to Props/<prop>.vo; always recompile the Props file itself so
    that its Print Assumptions output is produced by this run."""
    coq_makefile()
    vo = os.path.join(COQ, prop_file[:-2] + '.vo')
    if os.path.exists(vo):
        os.remove(vo)
    t0 = time.time()
    r = run(['timeout', '1500', 'make', f'-j{NPROC}', prop_file[:-2] + '.vo'], cwd=COQ, timeout=1600)
    log(f'[build] coq {prop_file} rc={r.returncode} ({time.time()-t0:.1f}s)')
    return r.returncode == 0, r.stdout


def audit_coq(prop_file, make_out):
    """Count theorems, parse Print Assumptions output, grep for forbidden tokens."""
    src = open(os.path.join(COQ, prop_file)).read()
    theorems = re.findall(r'^\s*(?:Theorem|Lemma)\s+(\w+)', src, re.M)
    printed = re.findall(r'^\s*Print Assumptions\s+(\w+)\.', src, re.M)
    problems = []
    missing = [t for t in theorems if t not in printed]
    if missing:
        problems.append(f'theorems without Print Assumptions: {missing}')
    closed = make_out.count('Closed under the global context')
    axioms = []
    # any "Axioms:" block lists names at line start followed by " : "
    in_ax = False
    for line in make_out.splitlines():
        if line.startswith('Axioms:'):
            in_ax = True
            continue
        if in_ax:
            m = re.match(r'^(\S+)\s*:', line)
            if m:
                axioms.append(m.group(1))
            elif line.strip() and not line.startswith(' '):
                in_ax = False
    bad_ax = [a for a in axioms if a not in AXIOM_ALLOW]
    if bad_ax:
        problems.append(f'axioms outside the allow-list: {sorted(set(bad_ax))}')
    n_reports = closed + make_out.count('Axioms:')
    if n_reports < len(printed):
        problems.append(f'only {n_reports} assumption reports for {len(printed)} theorems')
    forb = []
    for f in glob.glob(os.path.join(COQ, '**', '*.v'), recursive=True):
        txt = open(f).read()
        txt = re.sub(r'\(\*.*?\*\)', '', txt, flags=re.S)
        for m in FORBIDDEN.finditer(txt):
            forb.append(f'{os.path.relpath(f, COQ)}: {m.group(0)}')
    if forb:
        problems.append(f'forbidden tokens: {forb[:5]}')
    return {'theorems': theorems, 'closed': closed, 'axioms': sorted(set(axioms)), 'problems': problems}


EXTRACT_MODULES = None


def build_driver():
    """Re-extract (ExtrOcamlBasic only) and rebuild the OCaml driver when any model object or the
    driver source is newer than the binary."""
    os.makedirs(EXTRACT, exist_ok=True)
    # every model object must be current (a property's own target only builds what it depends on)
    coq_makefile()
    models = [l.strip()[:-2] + '.vo' for l in open(os.path.join(COQ, '_CoqProject')) if l.startswith('Model/') or l.startswith('gen/')]
    r = run(['timeout', '1500', 'make', f'-j{NPROC}'] + models, cwd=COQ, timeout=1600)
    if r.returncode != 0:
        return False, r.stdout[-3000:]
    srcs = glob.glob(os.path.join(COQ, 'Model', '*.vo')) + [os.path.join(ROOT, 'extract', 'driver.ml'),
                                                           os.path.join(COQ, 'Extract.v')]
    if os.path.exists(DRIVER) and all(os.path.getmtime(s) <= os.path.getmtime(DRIVER) for s in srcs):
        return True, ''
    t0 = time.time()
    for f in glob.glob(os.path.join(EXTRACT, '*.ml*')) + glob.glob(os.path.join(EXTRACT, '*.cm*')) + glob.glob(os.path.join(EXTRACT, '*.o')):
        os.remove(f)
    r = run(['coqc', '-Q', COQ, 'OQ3', os.path.join(COQ, 'Extract.v')], cwd=EXTRACT, timeout=600)
    if r.returncode != 0:
        return False, r.stdout[-3000:]
    shutil.copyfile(os.path.join(ROOT, 'extract', 'driver.ml'), os.path.join(EXTRACT, 'driver.ml'))
    # order the extracted modules by dependency with ocamldep
    mls = sorted(f for f in os.listdir(EXTRACT) if f.endswith('.ml') or f.endswith('.mli'))
    r = run(['ocamlfind', 'ocamldep', '-sort'] + mls, cwd=EXTRACT)
    order = r.stdout.split()
    r = run(['ocamlfind', 'ocamlopt', '-O3', '-w', '-a', '-o', 'driver'] + order, cwd=EXTRACT, timeout=900)
    if r.returncode != 0:
        return False, r.stdout[-3000:]
    log(f'[build] extraction + driver ok ({time.time()-t0:.1f}s)')
    return True, ''


# ---------------------------------------------------------------- running families
def run_family(fam, tier, seed):
    """fam: dict(name, args={tier: [...]}, shards={tier:n}, driver_args=[...]).
    Runs  oq3h <name> <args> --shard i --nshards n | driver   for every shard in parallel."""
    args = fam['args'][tier]
    nsh = fam.get('shards', {}).get(tier, 1)
    procs = []
    for i in range(nsh):
        hcmd = [HARNESS, fam['name']] + [str(a) for a in args] + ['--seed', str(seed)]
        if nsh > 1:
            hcmd += ['--shard', str(i), '--nshards', str(nsh)]
        # outputs go to files: with pipes, a shard whose driver prints more than a pipe buffer would
        # block until its turn to be read, serialising the shards
        tmpd = os.path.join(ROOT, 'build', 'tmp')
        os.makedirs(tmpd, exist_ok=True)
        tag = f"{os.getpid()}-{fam['name']}-{i}"
        herr = open(os.path.join(tmpd, f'h-{tag}.err'), 'w+')
        dout = open(os.path.join(tmpd, f'd-{tag}.out'), 'w+')
        h = subprocess.Popen(hcmd, stdout=subprocess.PIPE, stderr=herr, env=ENV)
        d = subprocess.Popen([DRIVER] + fam.get('driver_args', []), stdin=h.stdout, stdout=dout,
                             stderr=subprocess.STDOUT, text=True)
        h.stdout.close()
        h._errf, d._outf = herr, dout
        procs.append((h, d, hcmd))
    res = {'cases': 0, 'nontrivial': 0, 'mismatch': 0, 'oracle': 0, 'known': 0, 'fidelity': 0, 'skipped': 0, 'MISMATCH': [], 'ORACLE': [],
           'KNOWN': [], 'SAMPLE': [], 'errors': [], 'cmds': []}
    deadline = time.time() + (3600 if tier == 'quick' else 6 * 3600)
    for h, d, hcmd in procs:
        try:
            hrc = h.wait(timeout=max(1, deadline - time.time()))
        except subprocess.TimeoutExpired:
            h.kill()
            hrc = h.wait()
            res['errors'].append(f'harness killed after the overall time limit: {" ".join(hcmd)}')
        d.wait()
        d._outf.seek(0); out = d._outf.read(); d._outf.close()
        h._errf.seek(0); herr = h._errf.read(); h._errf.close()
        for f in (d._outf.name, h._errf.name):
            try:
                os.remove(f)
            except OSError:
                pass
        res['cmds'].append(' '.join(hcmd))
        if hrc == 97 and 'HANG\t' in herr:
            # the watchdog of the harness: one case did not return within the limit; the input is the failing input
            hl = [l for l in herr.splitlines() if l.startswith('HANG\t')][-1].split('\t')
            # (no property id in the message: whatever property is being checked is undecided on this input)
            res['oracle'] += 1
            res['ORACLE'].append([fam['name'], hl[2] if len(hl) > 2 else '',
                                  f'FAIL: the implementation did not return within {hl[1]} s on this input (endless loop or unbounded recursion)'])
        elif hrc != 0:
            res['errors'].append(f'harness exit {hrc}: {herr[-500:]}')
        if d.returncode != 0:
            res['errors'].append(f'driver exit {d.returncode}: {out[-500:]}')
        got_summary = False
        for line in out.splitlines():
            f = line.split('\t')
            if f[0] == 'SUMMARY':
                got_summary = True
                for kv in f[1:]:
                    k, v = kv.split('=')
                    res[k] += int(v)
            elif f[0] in ('MISMATCH', 'ORACLE', 'KNOWN', 'SAMPLE'):
                res[f[0]].append(f[1:])
            elif f[0] == 'DRIVER-ERROR':
                res['errors'].append(line[:500])
        if not got_summary:
            res['errors'].append('driver printed no SUMMARY: ' + out[-300:])
    if res['skipped'] > fam.get('max_skip', 0.25) * max(res['cases'], 1):
        res['errors'].append(f"{res['skipped']} of {res['cases']} generated cases were skipped (generator no longer fits the implementation)")
    return res


# ---------------------------------------------------------------- verdict
def load_known(pid):
    kf = os.path.join(ROOT, 'known_findings.jsonl')
    out = {}
    if os.path.exists(kf):
        for line in open(kf):
            line = line.strip()
            if not line:
                continue
            r = json.loads(line)
            if r['property'] == pid:
                out[r['key']] = r
    return out


def write_replay(pid, payload):
    os.makedirs(os.path.join(ROOT, 'replays'), exist_ok=True)
    h = hashlib.sha1(json.dumps(payload, sort_keys=True).encode()).hexdigest()[:10]
    p = os.path.join(ROOT, 'replays', f'{pid}-{h}.json')
    json.dump(payload, open(p, 'w'), indent=1)
    return os.path.relpath(p, ROOT)


def main():
    if len(sys.argv) < 2 or sys.argv[1] not in PROPS:
        log('usage: check <property id> [--tier quick|thorough] [--replay file]')
        sys.exit(2)
    pid = sys.argv[1]
    tier = os.environ.get('VERIF_TIER', 'quick')
    replay = None
    a = sys.argv[2:]
    while a:
        if a[0] == '--tier':
            tier = a[1]; a = a[2:]
        elif a[0] == '--replay':
            replay = a[1]; a = a[2:]
        else:
            log('bad argument', a[0]); sys.exit(2)
    seed = int(os.environ.get('VERIF_SEED', '1'))
    P = PROPS[pid]
    t0 = time.time()
    os.chdir(ROOT)
    violations = []      # (replay payload, suffix)
    known_lines = []
    broken = []          # names of theorems / correspondences that no longer check

    with Lock():
        ok, msg = build_harness()
        if not ok:
            print(msg)
            broken.append('harness-build: the harness no longer compiles against /repo: ' + msg[-300:])
        okg, gmsg = gen_tables()
        if not okg:
            broken.append('table translator failed on /repo sources: ' + gmsg[-300:])
        okc, make_out = build_coq(P['coq'])
        aud = audit_coq(P['coq'], make_out) if okc else {'theorems': [], 'closed': 0, 'axioms': [], 'problems': []}
        if not okc:
            log(make_out[-3000:])
            broken.append('coq: ' + P['coq'] + ' no longer compiles: ' + make_out[-400:].replace('\n', ' '))
        for pr in aud['problems']:
            broken.append('audit: ' + pr)
        okd, msg = build_driver()
        if not okd:
            log(msg)
            broken.append('extraction/driver build failed: ' + msg[-300:])

    if replay:
        rp = json.load(open(replay))
        fam = dict(rp['family'])
        r = run([HARNESS, fam['name']] + rp['harness_args'], timeout=600)
        d = run([DRIVER], input=r.stdout, timeout=600)
        print(r.stdout[:2000]); print(d.stdout[:2000])
        bad = ('MISMATCH' in d.stdout) or ('ORACLE' in d.stdout)
        if bad:
            print(f'VIOLATION property={pid} replay={replay}')
        sys.exit(1 if bad else 0)

    known = load_known(pid)
    fam_results = []
    if ok and okd:
        for fam in P['families']:
            ft0 = time.time()
            res = run_family(fam, tier, seed)
            res['family'] = fam['name']
            res['wall_s'] = round(time.time() - ft0, 1)
            fam_results.append(res)
            log(f"[run] {fam['name']} {tier}: cases={res['cases']} nontrivial={res['nontrivial']} mismatch={res['mismatch']} "
                f"oracle={res['oracle']} known={res['known']} errors={len(res['errors'])} ({res['wall_s']}s)")

    # oracle failures: concrete inputs on which the implementation violates the property
    for res in fam_results:
        for f in res['ORACLE']:
            # a family may serve several properties; its oracle messages name the property they decide
            m = re.match(r'FAIL (C\d+(?:,C\d+)*)', f[2] if len(f) > 2 else '')
            if m and pid not in m.group(1).split(','):
                continue
            violations.append(({'property': pid, 'kind': 'property-oracle', 'family': res['family'], 'case': f[0],
                                'input': f[1] if len(f) > 1 else '', 'what': f[2] if len(f) > 2 else '',
                                'reproduce': res['cmds'][0]}, ''))
        seen_keys = {}
        for f in res['KNOWN']:
            key = f[1]
            if re.match(r'C\d+\.', key) and key.split('.')[0] != pid:
                continue
            if key in known and known[key].get('status', 'open') == 'open':
                seen_keys.setdefault(key, f)
            else:
                violations.append(({'property': pid, 'kind': 'unlisted-finding', 'family': res['family'], 'key': key,
                                    'input': f[2] if len(f) > 2 else ''}, ''))
        for key, f in seen_keys.items():
            known_lines.append(f"KNOWN-FINDING: property={pid} {key}: {known[key]['what']} (e.g. {f[2] if len(f) > 2 else ''})")
        for f in res['MISMATCH']:
            broken.append(f"correspondence {res['family']}: model and implementation differ on input [{f[1]}] {f[2][:300]} {f[3][:300]}")
        for e in res['errors']:
            broken.append(f"run error in {res['family']}: {e}")

    # the model (or its extraction) no longer builds, so no correspondence can run: search the implementation
    # alone -- the harness lines carry the verdicts of the implementation oracles in their last field
    if broken and not violations and ok and not okd:
        log('[search] model/driver do not build; running the implementation oracles of the harness alone')
        for fam in P['families']:
            if violations:
                break
            args = [str(a) for a in fam['args']['quick']]
            nsh = fam.get('shards', {}).get('quick', 1)
            procs = []
            for i in range(nsh):
                hcmd = [HARNESS, fam['name']] + args + ['--seed', str(seed)] + (['--shard', str(i), '--nshards', str(nsh)] if nsh > 1 else [])
                procs.append((hcmd, subprocess.Popen(hcmd, stdout=subprocess.PIPE, stderr=subprocess.DEVNULL, env=ENV, text=True, errors='replace')))
            for hcmd, pr in procs:
                try:
                    out, _ = pr.communicate(timeout=1800)
                except subprocess.TimeoutExpired:
                    pr.kill()
                    continue
                for line in out.splitlines():
                    f = line.split('\t')
                    m = re.match(r'FAIL (C\d+(?:,C\d+)*)', f[-1])
                    if m and pid in m.group(1).split(',') and len(violations) < 10:
                        violations.append(({'property': pid, 'kind': 'property-oracle (implementation only: the model no longer builds)',
                                            'family': fam['name'], 'case': f[0], 'input': '\t'.join(f[1:-1])[:2000], 'what': f[-1][:2000],
                                            'reproduce': ' '.join(hcmd), 'broken': broken[:5]}, ''))

    # a broken proof/correspondence with no failing input found so far: search deeper before giving up
    if broken and not violations and tier == 'quick' and ok and okd and P.get('search_on_break', True):
        log('[search] proof or correspondence broken; running the generators with other seeds to look for a failing input')
        for fam, k in [(fam, k) for k in (1, 2, 3) for fam in P['families']]:
            if violations:
                break
            try:
                res = run_family(fam, 'quick', seed + k)
            except Exception as e:  # noqa
                continue
            for f in res['ORACLE'][:50]:
                m = re.match(r'FAIL (C\d+(?:,C\d+)*)', f[2] if len(f) > 2 else '')
                if m and pid not in m.group(1).split(','):
                    continue
                violations.append(({'property': pid, 'kind': 'property-oracle (found by search after break)',
                                    'family': fam['name'], 'case': f[0], 'input': f[1] if len(f) > 1 else '',
                                    'what': f[2] if len(f) > 2 else '', 'broken': broken[:5]}, ''))
    if broken and not violations:
        violations.append(({'property': pid, 'kind': 'broken-proof-or-correspondence', 'broken': broken[:20],
                            'note': 'no concrete failing input was found by the oracle search'}, ' no-failing-input-found'))

    for l in sorted(set(known_lines)):
        print(l)
    # one VIOLATION line per distinct (kind, what/key) class, at most 10
    printed = set()
    for payload, suffix in violations:
        cls = (payload.get('kind'), payload.get('what', payload.get('key', '')))
        if cls in printed or len(printed) >= 10:
            continue
        printed.add(cls)
        path = write_replay(pid, payload)
        print(f'VIOLATION property={pid} replay={path}{suffix}')

    # evidence
    tot = lambda k: sum(r[k] for r in fam_results)  # noqa
    samples = []
    for r in fam_results:
        samples += [{'family': r['family'], 'input': s[1] if len(s) > 1 else '', 'impl': (s[2] if len(s) > 2 else '')[:300]}
                    for s in r['SAMPLE'][:3]]
    n_thm = len(aud['theorems'])
    n_corr = len(P['families'])
    corr_ok = sum(1 for r in fam_results if r['mismatch'] == 0 and not r['errors'])
    thm_ok = n_thm if (okc and not aud['problems']) else 0
    ev = {
        'property_id': pid, 'tier': tier, 'seed': seed, 'level': 'proof',
        'coverage': {
            'obligations': n_thm + n_corr,
            'discharged': thm_ok + corr_ok,
            'checker_cmd': f'make -C coq {P["coq"][:-2]}.vo (coqc 8.16.1, full .vo build) ; oq3h <family> | extract/driver',
            'trusted_base': P['trusted_base'] + [
                'Coq 8.16.1 kernel; vm_compute; no native_compute',
                'axioms reported by Print Assumptions: ' + (', '.join(aud['axioms']) if aud['axioms'] else 'none (Closed under the global context)'),
                'extraction with ExtrOcamlBasic only (no Extract Constant / Extract Inductive of ours); hand-written OCaml driver (parsing/printing)',
                'Rust harness (tools/harness) and its generators; hand-written Gallina model tied to /repo only by this correspondence',
            ],
            'theorems': aud['theorems'],
            'theorems_closed_under_global_context': aud['closed'],
            'evaluations': tot('cases'),
            'distinct_nontrivial': tot('nontrivial'),
            'rule': P['rule'],
            'samples': samples or [{'note': 'no family ran'}],
            'exhaustive': P.get('exhaustive', {}).get(tier, False),
            'traces_validated_against_impl': tot('cases'),
            'model_impl_mismatches': tot('mismatch'),
            'oracle_failures': tot('oracle'),
            'known_finding_hits': tot('known'),
            'families': [{k: r[k] for k in ('family', 'cases', 'nontrivial', 'mismatch', 'oracle', 'known', 'wall_s')} | {'cmd': r['cmds'][0] if r['cmds'] else ''} for r in fam_results],
            'partial': P.get('partial', []),
        },
        'assumptions': P.get('assumptions', []),
        'wall_s': round(time.time() - t0, 1),
        'violations': len(printed),
    }
    os.makedirs(os.path.join(ROOT, 'evidence'), exist_ok=True)
    json.dump(ev, open(os.path.join(ROOT, 'evidence', f'{pid}.json'), 'w'), indent=1)
    log(f'[done] {pid} {tier}: violations={len(printed)} wall={ev["wall_s"]}s')
    sys.exit(1 if printed else 0)


if __name__ == '__main__':
    main()
