#!/bin/bash
# usage: seed_test.sh <seeded dir name> <prop> [more props...]  -- applies seeded/<name>/patch.diff to /repo, runs the checks, reverts
name=$1; shift
cd /verif
git -C /repo diff --quiet || { echo "/repo is not clean"; exit 2; }
git -C /repo apply /verif/seeded/$name/patch.diff || { echo "patch does not apply"; exit 2; }
res=""
for p in "$@"; do
  out=$(./check $p --tier quick 2>&1); rc=$?
  nv=$(echo "$out" | grep -c '^VIOLATION')
  first=$(echo "$out" | grep '^VIOLATION' | head -1)
  echo "$name vs $p: rc=$rc violations=$nv  $first"
  echo "$out" | grep '\[run\]' | sed 's/^/    /' | cut -c1-160
  res="$res $p:$rc"
done
git -C /repo checkout -- .
echo "RESULT $name$res"
